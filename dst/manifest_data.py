"""What MANIFEST.json claims (kept next to the code so that it cannot drift)."""
NOTES = ("Deterministic simulation with fault injection for a sequential in-memory library: see DESIGN.md. "
         "Exit 0 = property held on everything explored (KNOWN-FINDING lines possible), 1 = VIOLATION with a "
         "minimised replay file, 2 = harness error.")

CLAIMS = {}

NOT_APPLICABLE = {
    'C14': 'annotate_paths is a pure function of an argument list: no state, history, fault, I/O, PRNG or '
           'aliasing for a simulator to control (DESIGN.md section 8)',
}
for _p in ['C01', 'C02', 'C03', 'C04', 'C05', 'C06', 'C07', 'C08', 'C09', 'C10', 'C11', 'C12', 'C13', 'C15',
           'C16', 'C17', 'C18', 'C19', 'C20']:
    NOT_APPLICABLE.setdefault(_p, 'check under construction in this session (DESIGN.md section 11); not claimed yet')
