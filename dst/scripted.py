"""Scripted histories of known findings: small literal programs against the real library,
each returning True while the recorded defect is still present."""
import dynetx as dn


def run_script(entry):
    fn = SCRIPTS[entry['script']]
    return bool(fn())


SCRIPTS = {}


def script(f):
    SCRIPTS[f.__name__] = f
    return f
