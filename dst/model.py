"""Reference model (DESIGN.md section 3.3 / Appendix A).

Deliberately trivial: a graph is a dict of nodes with attributes, graph attributes and,
per pair key, the *set of instants* at which the pair is present.  Everything else is
derived on demand.  The model never looks at dynetx internals.
"""
import copy
from fractions import Fraction


def nkey(n):
    """total order over node ids of mixed kinds (only used for canonical output)"""
    return (type(n).__name__, n) if not isinstance(n, tuple) else ('tuple', tuple(nkey(x) for x in n))


class ModelGraph:
    def __init__(self, directed, removal=True):
        self.directed = directed
        self.removal = removal
        self.nodes = {}        # node -> attrs (deep copies)
        self.gattrs = {}
        self.pres = {}         # key -> set[int]            (removal mode)
        self.first = {}        # key -> first instant        (accumulative mode)
        self.accepted = set()  # accepted instants           (accumulative mode)
        self.orient = {}       # key -> (u, v) as first given (needed to print / re-add)
        self.unclosed2 = {}    # key -> set of run starts s: run [s,s+1] made by point+point (D12a)
        self.frozen = False

    # ---------------------------------------------------------------- basics
    def key(self, u, v):
        return (u, v) if self.directed else frozenset((u, v))

    def pair(self, key):
        return self.orient[key]

    def clone(self):
        m = ModelGraph(self.directed, self.removal)
        m.nodes = copy.deepcopy(self.nodes)
        m.gattrs = copy.deepcopy(self.gattrs)
        m.pres = {k: set(v) for k, v in self.pres.items()}
        m.first = dict(self.first)
        m.accepted = set(self.accepted)
        m.orient = dict(self.orient)
        m.unclosed2 = {k: set(v) for k, v in self.unclosed2.items()}
        m.frozen = self.frozen
        return m

    def keys(self):
        return list(self.pres) if self.removal else list(self.first)

    def ever(self, u, v):
        k = self.key(u, v)
        return k in (self.pres if self.removal else self.first)

    def present(self, u, v, t):
        k = self.key(u, v)
        return self.present_key(k, t)

    def present_key(self, k, t):
        if self.removal:
            return t in self.pres.get(k, ())
        if k not in self.first or not self.accepted:
            return False
        return self.first[k] <= t <= max(self.accepted)

    def pset(self, k, lo=None, hi=None):
        """presence set of a key (accumulative: expanded over [first, last id])"""
        if self.removal:
            return set(self.pres.get(k, ()))
        if k not in self.first or not self.accepted:
            return set()
        return set(range(self.first[k], max(self.accepted) + 1))

    @staticmethod
    def runs_of(s):
        out = []
        for x in sorted(s):
            if out and out[-1][1] == x - 1:
                out[-1][1] = x
            else:
                out.append([x, x])
        return out

    def runs(self, k):
        return self.runs_of(self.pres.get(k, ()))

    def instants(self):
        """snapshot ids: inhabited instants (removal) / accepted instants (accumulative)"""
        if self.removal:
            s = set()
            for v in self.pres.values():
                s |= v
            return sorted(s)
        return sorted(self.accepted)

    def span_bounds(self):
        ids = self.instants()
        return (ids[0], ids[-1]) if ids else None

    # ---------------------------------------------------------------- updates
    def rejects(self, u, v, t):
        """documented rule: span starts before the start of the pair's latest run"""
        if not self.removal:
            raise AssertionError("acceptance is observed, not predicted, in accumulative mode")
        k = self.key(u, v)
        r = self.runs(k)
        return bool(r) and t < r[-1][0]

    def touch_nodes(self, *ns):
        for n in ns:
            self.nodes.setdefault(n, {})

    def apply_add(self, u, v, t, e=None):
        """an accepted add (removal mode)"""
        k = self.key(u, v)
        self.touch_nodes(u, v)
        self.orient.setdefault(k, (u, v))
        span = {t} if e is None else set(range(t, e))
        old = self.runs(k)
        # D12(a) bookkeeping: point add adjacent to a one-instant latest run -> unclosed 2-run
        if old:
            ls, le = old[-1]
            if e is None and ls == le and t == le + 1:
                self.unclosed2.setdefault(k, set()).add(ls)
            elif ls in self.unclosed2.get(k, ()) and t <= le + 1 and max(span) > le:
                # latest run is extended again: the implementation closes it now
                self.unclosed2[k].discard(ls)
        self.pres.setdefault(k, set()).update(span)

    def apply_add_acc(self, u, v, t):
        """an add observed as accepted in accumulative mode"""
        k = self.key(u, v)
        self.touch_nodes(u, v)
        self.orient.setdefault(k, (u, v))
        self.first.setdefault(k, t)
        self.accepted.add(t)

    def add_node(self, n, attrs=None):
        self.nodes.setdefault(n, {}).update(copy.deepcopy(attrs or {}))

    def set_node_attrs(self, n, attrs):
        self.nodes[n] = copy.deepcopy(attrs)

    def clear(self, nodes_too=True):
        self.pres.clear(); self.first.clear(); self.accepted.clear()
        self.orient.clear(); self.unclosed2.clear()
        if nodes_too:
            self.nodes.clear(); self.gattrs.clear()

    # ---------------------------------------------------------------- static graph at t
    def edges_at(self, t):
        """keys present at t (t=None: ever)"""
        if t is None:
            return self.keys()
        return [k for k in self.keys() if self.present_key(k, t)]

    def oriented(self, k):
        if self.directed:
            return k
        return tuple(k) if len(k) == 2 else (next(iter(k)),) * 2

    def succ(self, n, t):
        out = []
        for k in self.edges_at(t):
            if self.directed:
                if k[0] == n:
                    out.append(k[1])
            elif n in k:
                o = [x for x in k if x != n]
                out.append(o[0] if o else n)
        return out

    def pred(self, n, t):
        if not self.directed:
            return self.succ(n, t)
        return [k[0] for k in self.edges_at(t) if k[1] == n]

    def nodes_at(self, t):
        if t is None:
            return list(self.nodes)
        s = set()
        for k in self.edges_at(t):
            s.update(k)
        return [n for n in self.nodes if n in s]

    def has_selfloop_at(self, n, t):
        k = self.key(n, n)
        return (k in (self.pres if self.removal else self.first)) if t is None else self.present_key(k, t)

    def any_selfloop_at(self, t):
        return any(self.has_selfloop_at(n, t) for n in self.nodes)

    # ---------------------------------------------------------------- derivations (A.6)
    def slice(self, a, b):
        h = ModelGraph(self.directed, True)
        for k, s in self.pres.items():
            w = {x for x in s if a <= x <= b}
            if w:
                h.pres[k] = w
                h.orient[k] = self.orient[k]
        # nodes = endpoints of surviving interactions, in the order the implementation would
        # create them is not asserted (node order is never compared)
        for k in h.pres:
            for n in (self.orient[k]):
                h.nodes.setdefault(n, copy.deepcopy(self.nodes[n]))
        return h

    def to_directed(self):
        h = ModelGraph(True, True)
        h.nodes = copy.deepcopy(self.nodes)
        h.gattrs = copy.deepcopy(self.gattrs)
        for k, s in self.pres.items():
            u, v = self.orient[k]
            for a, b in ((u, v), (v, u)):
                h.pres[(a, b)] = set(s)
                h.orient[(a, b)] = (a, b)
        return h

    def to_undirected(self, reciprocal=False):
        h = ModelGraph(False, True)
        h.nodes = copy.deepcopy(self.nodes)
        h.gattrs = copy.deepcopy(self.gattrs)
        for (u, v), s in self.pres.items():
            k = frozenset((u, v))
            if k in h.pres:
                continue
            o = self.pres.get((v, u), set()) if u != v else s
            w = (s & o) if reciprocal else (s | o)
            if reciprocal and (v, u) not in self.pres:
                w = set()
            if w:
                h.pres[k] = set(w)
                h.orient[k] = (u, v)
        return h

    def from_rows(self, rows):
        """replay per-instant point rows (u,v,t) the way a reader does: the result has the
        rows' presence; D12(a) bookkeeping follows from the point-add rule in apply_add"""
        for u, v, t in rows:
            self.apply_add(u, v, t)
        return self

    # ---------------------------------------------------------------- counts (A.4)
    def count_at(self, t):
        return len(self.edges_at(t))

    def avg_nodes(self):
        ids = self.instants()
        return Fraction(sum(len(self.nodes_at(t)) for t in ids), len(ids))

    def digest_state(self):
        """hashable summary used for distinct-state counting"""
        if self.removal:
            p = tuple(sorted((tuple(sorted(map(nkey, k))) if not self.directed else tuple(map(nkey, k)),
                              tuple(sorted(v))) for k, v in self.pres.items()))
        else:
            p = (tuple(sorted((tuple(sorted(map(nkey, k))) if not self.directed else tuple(map(nkey, k)), f)
                              for k, f in self.first.items())), tuple(sorted(self.accepted)))
        return (self.directed, self.removal, len(self.nodes), p)
