"""C20: delta-conformity probes (observer) + mirror replay under a renaming of node ids and
label values."""
import copy

import dynetx as dn
import dynetx.algorithms as al
import dynetx.algorithms.assortativity as conf_mod

from .core import Abort, Violation, call, exc_class
from .ops import require_source_ok
from .ops_paths import TooBig, brute_paths, with_stubs

EPS = 1e-9
LABEL_REN = {'x': 'q', 'y': 'p', 'z': 'r', 0: 'zero', 1: 'one', '': 'empty'}


def ren_node(n):
    if isinstance(n, int):
        return 50 - n
    return {'a': 'u', 'b': 't', 'c': 's', 'd': 'r', 'e': 'q', 'f': 'p'}.get(n, n + n)


def quiet(fn):
    """the conformity module prints progress bars through tqdm: replaced by the identity"""
    old = getattr(conf_mod, 'tqdm', None)
    if old is not None:
        conf_mod.tqdm = lambda it, *a, **k: it
    try:
        return with_stubs('random', 1, fn)[0]
    finally:
        if old is not None:
            conf_mod.tqdm = old


def flat(res):
    out = {}
    for a, d in res.items():
        for p, nv in d.items():
            for n, v in nv.items():
                out[(a, p, n)] = v
    return out


def do_probe_conf(world, rep, op):
    g, m = rep.g, rep.m
    tag = 'C20'
    if world.poke:
        from . import oracles as _o
        _o.poke_observers(rep.g, *_o.window(rep.m))
    require_source_ok(world, rep)
    if m.directed or not m.removal or rep.shared_attrs or m.frozen or any(len(k) == 1 for k in m.pres):
        return {'out': 'skipped', 'fault': False, 'cls': 'skip', 'keys': []}
    ids = m.instants()
    nodes = list(m.nodes)
    if not ids or not nodes:
        return {'out': 'skipped', 'fault': False, 'cls': 'skip', 'keys': []}
    # labels are set through the public helper (a legitimate attribute update: the model follows)
    labels = {n: op['labels'][i % len(op['labels'])] for i, n in enumerate(nodes)}
    st, r = call(dn.set_node_attributes, g, dict(labels), 'lab')
    if st != 'ok':
        raise Abort('set_node_attributes raised %s' % exc_class(r))
    for n, v in labels.items():
        m.nodes[n]['lab'] = v
    start, delta = op['start'], op['delta']
    alphas, ptype = op['alphas'], op['path_type']
    end = start + delta
    wm = m.slice(start, end)
    wids = wm.instants()
    try:
        reach = {}
        for u in wm.nodes_at(start):
            ps = brute_paths(wm, u, None, wids)
            reach[u] = {p[-1][1] for p in ps} - {u}
    except TooBig:
        world.count('probe.conf.skipped-too-big')
        return {'out': 'skipped', 'fault': False, 'cls': 'skip', 'keys': []}
    if len(wids) > 6:
        world.count('probe.conf.skipped-window-too-long')
        return {'out': 'skipped', 'fault': False, 'cls': 'skip', 'keys': []}
    st, res = quiet(lambda: call(al.delta_conformity, g, start, delta, list(alphas), ['lab'], path_type=ptype))
    if st != 'ok':
        raise Violation(tag + '.raises', exc_class(res), {'op': op, 'msg': str(res)[:200]})
    world.evals += 1
    if not wids:
        if res is not None:
            raise Violation(tag + '.empty-window', 'not-None', {'op': op, 'got': repr(res)[:200]})
        world.count('probe.conf.empty-window')
        return {'out': 'ok', 'fault': False, 'cls': 'probe-conf', 'keys': []}
    if res is None:
        raise Violation(tag + '.empty-window', 'None-for-inhabited-window', {'op': op, 'window_ids': wids})
    exp_keys = set(wm.nodes_at(start))
    if set(res) != {"%.2f" % a for a in alphas}:
        raise Violation(tag + '.shape', 'alphas', {'op': op, 'got': sorted(res)})
    for a, d in res.items():
        if set(d) != {'lab'}:
            raise Violation(tag + '.shape', 'profiles', {'op': op, 'got': sorted(d)})
        if set(d['lab']) != exp_keys:
            raise Violation(tag + '.support', 'nodes-present-at-start', {'op': op, 'impl': sorted(map(repr, d['lab'])),
                                                                      'model': sorted(map(repr, exp_keys))})
        for n, v in d['lab'].items():
            if not (-1 - EPS <= v <= 1 + EPS):
                raise Violation(tag + '.range', 'score-outside-[-1,1]', {'op': op, 'node': repr(n), 'score': v})
            if len(set(labels.values())) == 1:
                want = 1.0 if reach.get(n) else 0.0
                if abs(v - want) > EPS:
                    raise Violation(tag + '.uniform', 'uniform-labels', {'op': op, 'node': repr(n), 'score': v, 'expected': want})
    world.count('probe.conf.%s' % ('uniform' if len(set(labels.values())) == 1 else 'mixed'))
    if any(reach.values()):
        world.count('probe.conf.some-node-reaches-another')
    # ---- mirror replay: same history, node ids and label values renamed
    if rep.prov == 'root' and op.get('mirror', True):
        h = mirror_graph(world, rep)
        if h is not None:
            dn.set_node_attributes(h, {ren_node(n): LABEL_REN.get(v, v) for n, v in labels.items()}, 'lab')
            st, res2 = quiet(lambda: call(al.delta_conformity, h, start, delta, list(alphas), ['lab'], path_type=ptype))
            if st != 'ok' or res2 is None:
                raise Violation(tag + '.mirror', 'raises-or-None', {'op': op, 'got': repr(res2)[:200]})
            f1, f2 = flat(res), flat(res2)
            exp2 = {(a, p, ren_node(n)): v for (a, p, n), v in f1.items()}
            if set(exp2) != set(f2) or any(abs(exp2[k] - f2[k]) > EPS for k in exp2):
                bad = [k for k in exp2 if k not in f2 or abs(exp2[k] - f2[k]) > EPS][:3]
                raise Violation(tag + '.mirror', 'scores-change-under-renaming',
                                {'op': op, 'keys': repr(bad), 'original': repr({k: f1.get((k[0], k[1], k[2])) for k in []}),
                                 'a': repr(sorted(f1.items(), key=repr)[:6]), 'b': repr(sorted(f2.items(), key=repr)[:6])})
            world.evals += 1
            world.count('probe.conf.mirror')
    # ---- sliding consistency
    if op.get('sliding'):
        st, sres = quiet(lambda: call(al.sliding_delta_conformity, g, delta, list(alphas), ['lab'], path_type=ptype))
        if st != 'ok':
            raise Violation(tag + '.sliding', 'raises', {'op': op, 'exc': exc_class(sres), 'msg': str(sres)[:200]})
        exp = {}
        for t in ids:
            if t + delta < ids[-1]:
                st2, dc = quiet(lambda: call(al.delta_conformity, g, t, delta, list(alphas), ['lab'], path_type=ptype))
                if st2 != 'ok':
                    raise Violation(tag + '.raises', exc_class(dc), {'op': op, 't': t})
                if dc is None:
                    continue
                for (a, p, n), v in flat(dc).items():
                    exp.setdefault((a, p, n), []).append((t + delta, v))
        got = {}
        for a, d in sres.items():
            for p, nv in d.items():
                for n, seq in nv.items():
                    got[(a, p, n)] = [tuple(x) for x in seq]
        if set(got) != set(exp) or any(len(got[k]) != len(exp[k]) or any(
                x[0] != y[0] or abs(x[1] - y[1]) > EPS for x, y in zip(got[k], exp[k])) for k in exp):
            raise Violation(tag + '.sliding', 'differs-from-per-t-calls', {'op': op, 'impl': repr(sorted(got.items(), key=repr)[:4]),
                                                                          'expected': repr(sorted(exp.items(), key=repr)[:4])})
        world.evals += 1
        world.count('probe.conf.sliding.%s' % ('nonempty' if exp else 'empty'))
    return {'out': 'ok', 'fault': False, 'cls': 'probe-conf', 'keys': []}


def mirror_graph(world, rep):
    """replay the accepted history of this root with renamed node ids on a fresh graph"""
    rid = world.rid_of(world.reps.index(rep))
    h = dn.DynGraph()
    for o in world.accepted_ops:
        if o.get('g') != rid:
            continue
        try:
            if o['op'] == 'add':
                h.add_interaction(ren_node(o['u']), ren_node(o['v']), o['t'], o.get('e'))
            elif o['op'] == 'bulk':
                from .ops import edges_of
                for u, v in edges_of(o['kind'], o['items']):
                    h.add_interaction(ren_node(u), ren_node(v), o['t'], o.get('e'))
            elif o['op'] == 'node' and o['kind'] in ('add_node', 'add_nodes_from'):
                for n in ([o['n']] if o['kind'] == 'add_node' else o['ns']):
                    h.add_node(ren_node(n))
            elif o['op'] in ('nx', 'freeze'):
                return None
        except Exception as ex:
            raise Abort('mirror history diverged: %r' % (ex,))
    return h
