"""Execution of concrete operations against a replica (real graph + model).

An operation is a JSON-able dict.  Execution performs the call on the real graph, asks the
model what had to happen, advances the model, and returns an outcome record.  Expectations
are recomputed from the model at execution time, so any sub-list of an operation list is
itself a valid program (this is what makes ddmin sound).
"""
import copy

import dynetx as dn
import networkx as nx

from . import obs
from .core import (Abort, Precondition, Replica, SimSourceError, Violation, call, exc_class)
from .model import ModelGraph


def new_graph(directed, removal):
    cls = dn.DynDiGraph if directed else dn.DynGraph
    return cls() if removal else cls(edge_removal=False)


# ------------------------------------------------------------------ helpers
def edges_of(kind, items):
    if kind == 'from':
        return [tuple(x) for x in items]
    ns = list(items)
    if kind == 'path':
        return list(zip(ns[:-1], ns[1:]))
    if kind == 'star':
        return [(ns[0], n) for n in ns[1:]]
    if kind == 'cycle':
        return list(zip(ns, ns[1:] + [ns[0]]))
    raise ValueError(kind)


def raising_gen(items, after):
    for i, x in enumerate(items):
        if after is not None and i == after:
            raise SimSourceError("source failed after %d items" % after)
        yield x
    if after is not None and after >= len(items):
        raise SimSourceError("source failed after %d items" % after)


def classify(st, r):
    return 'ok' if st == 'ok' else exc_class(r)


def mismatch(world, what, detail):
    """outcome class of a mutation differs from what the model demands"""
    if world.focus == 'C01':
        raise Violation('C01.outcome', what, detail)
    raise Precondition('C01.outcome %s %r' % (what, detail))


# ------------------------------------------------------------------ add_interaction
def do_add(world, rep, op):
    g, m = rep.g, rep.m
    u, v, t, e, sp = op['u'], op['v'], op['t'], op.get('e'), op.get('sp', 'pos')
    if sp == 'pos':
        args, kw = ((u, v, t) if e is None else (u, v, t, e)), {}
    elif sp == 'kw':
        args, kw = (u, v), ({'t': t} if e is None else {'t': t, 'e': e})
    elif sp == 'kw_all':
        args, kw = (), {'u': u, 'v': v, 't': t, 'e': e}
    elif sp == 'no_t':
        args, kw = (u, v), ({} if e is None else {'e': e})
        t = None
    else:
        raise ValueError(sp)
    st, r = call(g.add_interaction, *args, **kw)
    out = classify(st, r)
    if t is None:
        exp = 'NetworkXError'
    elif m.removal:
        exp = 'ValueError' if m.rejects(u, v, t) else 'ok'
    else:
        exp = out if out in ('ok', 'ValueError') else 'ok'   # acceptance observed (A.1)
    if out != exp:
        mismatch(world, 'add', {'op': op, 'expected': exp, 'got': out, 'msg': str(r) if st != 'ok' else None})
    if out == 'ok':
        if m.removal:
            cls = span_class(m, u, v, t, e)
            m.apply_add(u, v, t, e)
        else:
            cls = 'acc'
            m.apply_add_acc(u, v, t)
        world.count('add.' + cls)
        return {'out': 'ok', 'fault': False, 'cls': cls, 'keys': [(u, v)]}
    world.count('fault.F-NOT' if t is None else 'fault.F-ORD')
    return {'out': out, 'fault': True, 'cls': 'reject', 'keys': [(u, v)]}


def span_class(m, u, v, t, e):
    """relative-position class of an accepted span (A.2), for coverage accounting"""
    k = m.key(u, v)
    runs = m.runs(k)
    a, b = t, (t if e is None else e - 1)
    kind = 'pt' if e is None else 'sp'
    if not runs:
        c = 'first'
    else:
        ls, le = runs[-1]
        if a > le + 1:
            c = 'gap'
        elif a == le + 1:
            c = 'adjacent' + ('-to-pt' if ls == le else '')
        elif b > le:
            c = 'overlap' + ('-samestart' if a == ls else '')
        else:
            c = 'contained' + ('-dup' if (a, b) == (ls, le) else '')
    o = ''
    if not m.directed and k in m.orient and m.orient[k] != (u, v) and u != v:
        o = '.swapped'
    return '%s.%s%s' % (c, kind, o)


# ------------------------------------------------------------------ bulk helpers
def do_bulk(world, rep, op):
    g, m = rep.g, rep.m
    kind, form, items = op['kind'], op.get('form', 'method'), op['items']
    t, e = op.get('t'), op.get('e')
    container, after = op.get('container', 'list'), op.get('raise_after')
    edges = edges_of(kind, items)
    if kind == 'from':
        if container == 'list':
            arg = [tuple(x) for x in items]
        elif container == 'tuple3':
            arg = tuple((x[0], x[1], {}) for x in items)
        elif container == 'gen':
            arg = raising_gen([tuple(x) for x in items], after)
        else:
            raise ValueError(container)
        if form == 'method':
            fn, args = g.add_interactions_from, (arg,)
        else:
            raise ValueError(form)
        kw = {}
        if op.get('t_kw', True):
            kw['t'] = t
        else:
            args = args + (t,)
        if e is not None:
            kw['e'] = e
    else:
        nodes = list(items) if container != 'gen' else iter(list(items))
        if form == 'method':
            fn = getattr(g, 'add_' + kind)
            args, kw = (nodes,), {'t': t}
        else:
            fn = getattr(dn, 'add_' + kind)
            args, kw = (g, nodes, t), ({} if e is None else {'e': e})
    if not m.removal:
        op = dict(op, _probe=copy.deepcopy(g))
    st, r = call(fn, *args, **kw)
    out = classify(st, r)
    # what had to happen: elements are applied in order up to the first rejected one.
    # removal mode: the model decides; accumulative mode: acceptance is *observed* (A.1) by
    # offering the same elements one by one to a scratch copy taken before the call.
    applied, exp, alt_none = [], 'ok', False
    if t is None:
        exp = 'NetworkXError'
    else:
        for i, (u, v) in enumerate(edges):
            if after is not None and i == after:
                exp, alt_none = 'SimSourceError', True
                break
            if m.removal:
                if m.rejects(u, v, t):
                    exp = 'ValueError'
                    break
                m.apply_add(u, v, t, e)
            else:
                st1, r1 = call(op['_probe'].add_interaction, u, v, t, e)
                if st1 != 'ok':
                    exp = exc_class(r1)
                    break
                m.apply_add_acc(u, v, t)
            applied.append((u, v))
        else:
            if after is not None and after >= len(edges):
                exp, alt_none = 'SimSourceError', True
    if out != exp:
        mismatch(world, 'bulk', {'op': {k: v for k, v in op.items() if k != '_probe'}, 'expected': exp,
                                 'got': out, 'msg': str(r) if st != 'ok' else None})
    world.count('bulk.%s.%s' % (kind, form))
    if exp == 'ok':
        return {'out': 'ok', 'fault': False, 'cls': 'bulk', 'keys': edges}
    if exp == 'ValueError':
        world.count('fault.F-BULK')
        world.count('fault.F-BULK.k=%d' % len(applied))
    elif exp == 'SimSourceError':
        world.count('fault.F-ITER')
    elif exp == 'NetworkXError':
        world.count('fault.F-NOT')
    else:
        raise Abort('bulk element raised %s' % exp)
    return {'out': out, 'fault': True, 'cls': 'bulk-fail', 'keys': edges, 'applied': len(applied),
            'alt_none': alt_none}


# ------------------------------------------------------------------ node / attribute operations
def do_node(world, rep, op):
    g, m = rep.g, rep.m
    kind = op['kind']
    attrs = copy.deepcopy(op.get('attrs') or {})
    if kind == 'add_node':
        st, r = call(g.add_node, op['n'], **attrs)
        if st == 'ok':
            m.add_node(op['n'], attrs)
    elif kind == 'add_nodes_from':
        st, r = call(g.add_nodes_from, list(op['ns']), **attrs)
        if st == 'ok':
            for n in op['ns']:
                m.add_node(n, attrs)
    elif kind == 'update_node_attr':
        if op['n'] not in m.nodes:
            return {'out': 'skipped', 'fault': False, 'cls': 'node', 'keys': []}
        st, r = call(g.update_node_attr, op['n'], **attrs)
        if st == 'ok':
            m.set_node_attrs(op['n'], attrs)
    elif kind == 'update_node_attr_from':
        ns = [n for n in op['ns'] if n in m.nodes]
        st, r = call(g.update_node_attr_from, ns, **attrs)
        if st == 'ok':
            for n in ns:
                m.set_node_attrs(n, attrs)
            if len(ns) > 1:
                rep.shared_attrs = True
    elif kind == 'set_node_attributes':
        if rep.shared_attrs:
            return {'out': 'skipped', 'fault': False, 'cls': 'node', 'keys': []}
        vals = {n: copy.deepcopy(attrs) for n in op['ns']}
        st, r = call(dn.set_node_attributes, g, vals)
        if st == 'ok':
            for n in op['ns']:
                if n in m.nodes:
                    m.nodes[n].update(copy.deepcopy(attrs))
    elif kind == 'graph_attr':
        st, r = call(g.graph.update, attrs)
        if st == 'ok':
            m.gattrs.update(copy.deepcopy(attrs))
    else:
        raise ValueError(kind)
    if st != 'ok':
        raise Abort('node op %s raised %s' % (kind, exc_class(r)))
    world.count('node.' + kind)
    return {'out': 'ok', 'fault': False, 'cls': 'node', 'keys': []}


def new_root(world, op):
    directed, removal = op['directed'], op.get('removal', True)
    rep = Replica(new_graph(directed, removal), ModelGraph(directed, removal), 'root')
    world.reps.append(rep)
    world.count('root.%s.%s' % ('D' if directed else 'U', 'removal' if removal else 'accumulative'))
    return {'out': 'ok', 'fault': False, 'cls': 'root', 'keys': []}
