#!/bin/bash
# Final step of a session: every registered quick check on /repo itself, then schema validation of
# the evidence it wrote.  (Evidence must come from /verif run against /repo, never from a snapshot.)
cd "$(dirname "$0")"
fail=0
for p in $(/venv/bin/python -c "import json; print(' '.join(c['property_id'] for c in json.load(open('MANIFEST.json'))['checks']))"); do
  out=$(./check $p --tier quick 2>&1); rc=$?
  echo "$p rc=$rc $(echo "$out" | grep ' tier=' | tail -1)"
  [ $rc -ne 0 ] && { fail=1; echo "$out" | grep 'VIOLATION\|HARNESS' | head -3; }
done
python3-vt - <<'PY'
import json, jsonschema, glob
sch = json.load(open('/root/.vp/EVIDENCE.schema.json'))
for f in sorted(glob.glob('/verif/evidence/*.json')):
    jsonschema.validate(json.load(open(f)), sch)
jsonschema.validate(json.load(open('/verif/MANIFEST.json')), json.load(open('/root/.vp/MANIFEST.schema.json')))
print('evidence and manifest valid')
PY
exit $fail
