"""Batch driver, replay, minimisation, evidence, CLI (DESIGN.md sections 4, 5, 12)."""
import argparse
import faulthandler
import json
import multiprocessing
import os
import random
import subprocess
import sys
import time
import traceback
from collections import Counter
from concurrent.futures import ProcessPoolExecutor, as_completed

ROOT = os.path.dirname(os.path.dirname(os.path.abspath(__file__)))
REPO = os.environ.get('VERIF_REPO', '/repo')


def reexec_if_needed():
    """fixed hash seed, no stale bytecode, /repo first on the path"""
    want = os.environ.get('VERIF_HASHSEED', '0')
    if os.environ.get('PYTHONHASHSEED') != want or os.environ.get('DST_REEXEC') != '1':
        env = dict(os.environ)
        env['PYTHONHASHSEED'] = want
        env['DST_REEXEC'] = '1'
        env['PYTHONDONTWRITEBYTECODE'] = '1'
        env['GIULIOROSSETTI_DYNETX_VERIF'] = '1'
        env['PYTHONPATH'] = REPO + os.pathsep + ROOT + os.pathsep + env.get('PYTHONPATH', '')
        os.execve(sys.executable, [sys.executable] + sys.argv, env)


def check_import():
    import dynetx
    f = os.path.realpath(dynetx.__file__)
    if not f.startswith(os.path.realpath(REPO) + os.sep):
        print("HARNESS-ERROR dynetx imported from %s, not from %s" % (f, REPO))
        sys.exit(2)


# ---------------------------------------------------------------------------- tiers
# runs per tier; wall caps are safety nets (a capped batch reports what it covered)
BUDGET = {
    'quick': dict(runs=24000, wall=45),
    'thorough': dict(runs=600000, wall=540),
}
RUNS_SCALE = {'C02': 0.35, 'C09': 0.4, 'C10': 0.4, 'C18': 0.4, 'C07': 0.6, 'C12': 2.5, 'C13': 2.5, 'C15': 2.5, 'C20': 2.0,
              'C17': 1.5}   # per-property multipliers (heavier oracles run fewer histories)


def run_seeds(vseed, focus, n):
    r = random.Random((vseed * 1000003) ^ (sum(ord(c) * 131 ** i for i, c in enumerate(focus)) & 0xffffffff))
    return [r.getrandbits(62) for _ in range(n)]


def work(args):
    focus, seeds, profile = args
    faulthandler.dump_traceback_later(600, exit=True)
    from . import engine
    agg = dict(stats=Counter(), status=Counter(), trans=set(), evals=0, viols=[], guard=Counter(),
               samples=[], notes=Counter(), steps=0, digests=[])
    for s in seeds:
        faulthandler.dump_traceback_later(600, exit=True)      # watchdog per run (re-armed), not per chunk
        try:
            res = engine.run(focus, seed=s, profile=profile)
        except Exception:  # harness bug: never silently dropped
            agg['status']['harness-error'] += 1
            agg['notes'][traceback.format_exc()[-600:]] += 1
            continue
        agg['stats'].update(res.stats)
        agg['status'][res.status] += 1
        if profile and profile.get('digests'):
            agg['digests'].append((s, res.digest, res.status))
        agg['trans'] |= res.trans
        agg['evals'] += res.evals
        agg['steps'] += len(res.ops)
        agg['guard'].update(res.guard_hits)
        if res.status == 'violation' and len(agg['viols']) < 4:
            agg['viols'].append((s, res.violation, res.ops, res.profile))
        elif res.status in ('precondition', 'abort'):
            agg['notes'][(res.status + ': ' + (res.note or ''))[:160]] += 1
        if len(agg['samples']) < 2 and res.status == 'ok' and 3 <= len(res.ops) <= 9:
            agg['samples'].append({'seed': s, 'ops': res.ops})
        if res.status == 'ok' and engine.FOCUS[focus].get('variants'):
            for vi, vops in enumerate(engine.fault_variants(res, 60 if (profile or {}).get('tier') == 'thorough' else 24)):
                faulthandler.dump_traceback_later(600, exit=True)
                r2 = engine.run(focus, ops_list=vops, profile=res.profile)
                agg['stats']['variants.run'] += 1
                agg['stats'].update(r2.stats)
                agg['evals'] += r2.evals
                agg['trans'] |= r2.trans
                if r2.status == 'violation' and len(agg['viols']) < 4:
                    agg['viols'].append(('%s-v%d' % (s, vi), r2.violation, r2.ops, r2.profile))
    faulthandler.cancel_dump_traceback_later()
    return agg


def batch(focus, vseed, tier, runs=None, jobs=None, wall=None, profile=None):
    b = BUDGET[tier]
    n = int((runs or b['runs']) * RUNS_SCALE.get(focus, 1.0)) if runs is None else runs
    wall = wall or b['wall']
    jobs = jobs or min(16, os.cpu_count() or 1)
    seeds = run_seeds(vseed, focus, n)
    chunk = max(20, min(500, n // (jobs * 8) or 1))
    chunks = [seeds[i:i + chunk] for i in range(0, n, chunk)]
    total = dict(stats=Counter(), status=Counter(), trans=set(), evals=0, viols=[], guard=Counter(),
                 samples=[], notes=Counter(), steps=0, runs=0, capped=False, digests=[])
    t0 = time.time()
    ctx = multiprocessing.get_context('fork')
    with ProcessPoolExecutor(max_workers=jobs, mp_context=ctx) as ex:
        pending = {}
        it = iter(enumerate(chunks))
        results = {}

        def submit_more():
            while len(pending) < jobs * 2:
                if time.time() - t0 > wall:
                    total['capped'] = True
                    return
                try:
                    i, c = next(it)
                except StopIteration:
                    return
                pending[ex.submit(work, (focus, c, profile))] = (i, len(c))
        submit_more()
        while pending:
            done = next(as_completed(list(pending)))
            i, ln = pending.pop(done)
            results[i] = (done.result(), ln)
            submit_more()
    for i in sorted(results):        # merge in run order: output independent of worker count
        agg, ln = results[i]
        total['runs'] += ln
        for k in ('stats', 'status', 'guard', 'notes'):
            total[k].update(agg[k])
        total['trans'] |= agg['trans']
        total['evals'] += agg['evals']
        total['steps'] += agg['steps']
        total['viols'].extend(agg['viols'])
        total['digests'].extend(agg['digests'])
        if len(total['samples']) < 3:
            total['samples'].extend(agg['samples'][:1])
    total['wall'] = time.time() - t0
    return total


# ---------------------------------------------------------------------------- replay files
def write_replay(focus, seed, ops, violation, minimised_from=None, tag=None, profile=None):
    d = os.path.join(ROOT, 'replays')
    os.makedirs(d, exist_ok=True)
    path = os.path.join(d, '%s-%s.json' % (focus, tag or seed))
    with open(path, 'w') as f:
        json.dump({'property': focus, 'seed': seed, 'hashseed': os.environ.get('PYTHONHASHSEED'),
                   'ops': ops, 'violation': violation, 'minimised_from_ops': minimised_from,
                   'profile': {k: v for k, v in (profile or {}).items() if k in ('check_every', 'poke', 'tier')}},
                  f, indent=1, default=repr)
    return path


def replay_file(focus, path, quiet=False):
    from . import engine
    with open(path) as f:
        d = json.load(f)
    res = engine.run(focus, ops_list=d['ops'], profile=d.get('profile'))
    if res.status == 'violation':
        if not quiet:
            print(json.dumps(res.violation, default=repr, indent=1))
        return res
    if not quiet:
        print("REPLAY-CLEAN status=%s %s" % (res.status, res.note or ''))
    return res


def minimise_and_report(focus, seed, violation, ops, profile=None):
    from . import engine, shrink
    sig = (violation['oracle'], violation['sub'])
    try:
        small, calls = shrink.minimise(ops, sig, lambda c: engine.run(focus, ops_list=c, profile=profile))
    except Exception as ex:       # a defect of the shrinker must never hide the violation it was shrinking
        print("NOTE shrinker failed (%s: %s); reporting the unminimised history" % (type(ex).__name__, ex))
        small = ops
    res = engine.run(focus, ops_list=small, profile=profile)
    v = res.violation if res.status == 'violation' else violation
    path = write_replay(focus, seed, small, v, minimised_from=len(ops), profile=profile)
    # the minimised file must reproduce in a fresh interpreter before it is reported
    p = subprocess.run([sys.executable, os.path.join(ROOT, 'check'), focus, '--replay', path],
                       capture_output=True, text=True, timeout=300)
    ok = p.returncode == 1 and 'VIOLATION property=%s' % focus in p.stdout
    return path, ok, v, len(small)


def run_regressions(focus):
    """replays of fixed findings (found/regress) are ordinary regression tests"""
    import glob
    bad = []
    files = sorted(glob.glob(os.path.join(ROOT, 'found', 'regress', focus + '-*.json')))
    for p in files:
        res = replay_file(focus, p, quiet=True)
        if res.status == 'violation':
            bad.append((p, res.violation))
        elif res.status != 'ok':
            print("HARNESS-ERROR regression replay %s ended as %s: %s" % (p, res.status, res.note))
            sys.exit(2)
    run_regressions.count = len(files)
    return bad


# ---------------------------------------------------------------------------- evidence
def write_evidence(focus, tier, vseed, level, total, extra):
    evdir = os.path.join(ROOT, 'evidence')
    if os.path.realpath(REPO) != '/repo':
        evdir = os.path.join(ROOT, 'evidence', '.scratch')      # experiments on scratch checkouts never touch the evidence
    os.makedirs(evdir, exist_ok=True)
    cov = {
        'evaluations': int(total['evals']),
        'distinct_nontrivial': len(total['trans']),
        'rule': extra.pop('rule'),
        'samples': total['samples'][:3],
        'runs': total['runs'],
        'steps': total['steps'],
        'runs_per_hour': int(total['runs'] / max(total['wall'], 1e-6) * 3600),
        'run_status': dict(total['status']),
        'fired': {k: v for k, v in sorted(total['stats'].items())},
        'guard_exemptions_used': dict(total['guard']),
        'discarded_or_aborted_reasons': dict(total['notes'].most_common(6)),
        'wall_capped': total['capped'],
        'simulated_time': 'not applicable: dynetx has no clock; timestamps are data',
    }
    cov.update(extra)
    ev = {
        'property_id': focus, 'tier': tier, 'seed': vseed, 'level': level, 'coverage': cov,
        'assumptions': ASSUMPTIONS, 'wall_s': round(total['wall'], 2), 'violations': len(total['viols']),
    }
    with open(os.path.join(evdir, focus + '.json'), 'w') as f:
        json.dump(ev, f, indent=1, default=repr)


ASSUMPTIONS = [
    'reference model and reading of the statements: DESIGN.md Appendix A',
    'CPython 3.12, networkx 3.6.1, numpy, stdlib codecs/compressors run for real and are not under test',
    'sampling, not proof: sizes <= 6 nodes, <= ~16 instants, <= 40 operations per run',
    'regions covered by an open known finding are exempt (see known_findings.json; exemptions counted)',
]

REAL_VS_STUB = {
    'real': ['all of /repo/dynetx (working tree)', 'networkx', 'decorator', 'gzip/bz2/io/json/codecs'],
    'stub': ['SimFS behind builtins.open for /sim paths', 'gzip header clock', 'numpy sampling in paths.py',
             'tqdm progress bars'],
}


# ---------------------------------------------------------------------------- main
def main(argv=None):
    ap = argparse.ArgumentParser()
    ap.add_argument('prop')
    ap.add_argument('--tier', default=os.environ.get('VERIF_TIER', 'quick'))
    ap.add_argument('--replay')
    ap.add_argument('--runs', type=int)
    ap.add_argument('--jobs', type=int)
    ap.add_argument('--wall', type=int)
    ap.add_argument('--seed', type=int, default=int(os.environ.get('VERIF_SEED', '20261001')))
    ap.add_argument('--no-min', action='store_true')
    ap.add_argument('--digest', action='store_true', help='print one digest over the event logs of the batch and exit')
    ap.add_argument('--part-json', help='(internal) run one sub-batch of a thorough run and dump its totals here')
    a = ap.parse_args(argv)
    reexec_if_needed()
    check_import()
    from . import engine, findings
    focus = a.prop
    if focus not in engine.FOCUS:
        print("HARNESS-ERROR unknown or unclaimed property %s" % focus)
        return 2
    if a.replay:
        res = replay_file(focus, a.replay)
        if res.status == 'violation':
            print("VIOLATION property=%s replay=%s" % (focus, os.path.abspath(a.replay)))
            return 1
        return 0
    if a.digest:
        import hashlib
        total = batch(focus, a.seed, a.tier, a.runs or 300, a.jobs, a.wall or 10 ** 6, profile={'digests': True})
        h = hashlib.sha256(json.dumps(total['digests']).encode()).hexdigest()
        print("DIGEST %s runs=%d hashseed=%s jobs=%s %s status=%s" % (focus, total['runs'], os.environ.get('PYTHONHASHSEED'),
                                                                     a.jobs, h, dict(total['status'])))
        return 0
    t0 = time.time()
    known = [] if a.part_json else findings.report_known(focus)
    regress_bad = [] if a.part_json else run_regressions(focus)
    profile = {'tier': a.tier}
    sub = []
    if a.tier == 'thorough' and not a.part_json:
        # three sub-batches under different PYTHONHASHSEEDs (0 here, 1 and 4242 in fresh interpreters)
        b = BUDGET['thorough']
        runs3 = (a.runs or int(b['runs'] * RUNS_SCALE.get(focus, 1.0))) // 3
        wall3 = (a.wall or b['wall']) // 3
        total = batch(focus, a.seed, a.tier, runs3, a.jobs, wall3, profile)
        os.makedirs(os.path.join(ROOT, '.parts'), exist_ok=True)
        for hs in (1, 4242):
            pj = os.path.join(ROOT, '.parts', '%s-%d.json' % (focus, hs))
            env = dict(os.environ, VERIF_HASHSEED=str(hs))
            env.pop('DST_REEXEC', None)
            env.pop('PYTHONHASHSEED', None)
            cmd = [sys.executable, os.path.join(ROOT, 'check'), focus, '--tier', 'thorough', '--part-json', pj,
                   '--runs', str(runs3), '--wall', str(wall3), '--seed', str(a.seed + hs)]
            if a.jobs:
                cmd += ['--jobs', str(a.jobs)]
            pr = subprocess.run(cmd, env=env, capture_output=True, text=True, timeout=wall3 * 4 + 900)
            sys.stdout.write(''.join(ln + '\n' for ln in pr.stdout.splitlines() if ln.startswith('VIOLATION')
                                     or ln.startswith('  ') or ln.startswith('HARNESS')))
            if pr.returncode not in (0, 1) or not os.path.exists(pj):
                print("HARNESS-ERROR sub-batch hashseed=%d failed: rc=%s %s" % (hs, pr.returncode, pr.stderr[-300:]))
                return 2
            with open(pj) as f:
                part = json.load(f)
            os.remove(pj)
            sub.append((hs, pr.returncode, part))
    else:
        total = batch(focus, a.seed, a.tier, a.runs, a.jobs, a.wall, profile)
    spec = engine.FOCUS[focus]
    rc = 0
    reported = []
    for path, v in regress_bad:
        print("VIOLATION property=%s replay=%s" % (focus, path))
        print("  (regression of a fixed finding) oracle=%s/%s" % (v['oracle'], v['sub']))
        reported.append({'replay': path, 'oracle': v['oracle'], 'sub': v['sub'], 'regression': True})
        rc = 1
    if total['status'].get('harness-error'):
        print("HARNESS-ERROR %d runs crashed inside the harness: %s" % (
            total['status']['harness-error'], list(total['notes'])[:1]))
        rc = 2
    explored = total['status'].get('ok', 0) + total['status'].get('violation', 0)
    if rc == 0 and explored * 20 < total['runs']:
        print("HARNESS-ERROR workload cannot make progress: %r %r" % (
            dict(total['status']), total['notes'].most_common(2)))
        rc = 2
    elif explored * 2 < total['runs']:
        # most runs were discarded because a property this one builds on (usually C01) does not hold
        # on this tree: that defect belongs to the other property's check; what could be explored
        # is reported, and the discard reasons are in the evidence
        print("NOTE %s: %d of %d runs discarded (precondition of another property failed): %r" % (
            focus, total['runs'] - explored, total['runs'], total['notes'].most_common(1)))
    missing = [r for r in engine.REACH.get(focus, []) if not total['stats'].get(r)]
    if missing and total['runs'] >= 4000 and rc == 0:
        print("HARNESS-ERROR reach probes stuck at zero: %s" % missing)
        rc = 2
    if total['viols']:
        rc = 1
        seen = set()
        for seed, v, ops_, prof in [x for x in total['viols'] if x]:
            sig = (v['oracle'], v['sub'])
            if sig in seen or len(seen) >= 3:
                continue
            seen.add(sig)
            if a.no_min:
                path = write_replay(focus, seed, ops_, v, profile=prof)
                ok, v2, ln = True, v, len(ops_)
            else:
                path, ok, v2, ln = minimise_and_report(focus, seed, v, ops_, prof)
            reported.append({'replay': path, 'oracle': v2['oracle'], 'sub': v2['sub'], 'ops': ln,
                             'reproduced_in_fresh_interpreter': ok})
            print("VIOLATION property=%s replay=%s" % (focus, path))
            print("  oracle=%s/%s ops=%d detail=%s" % (v2['oracle'], v2['sub'], ln,
                                                       json.dumps(v2['detail'], default=repr)[:600]))
            if not ok:
                print("  WARNING: minimised replay did not reproduce in a fresh interpreter")
        rc = 1
    if a.part_json:
        with open(a.part_json, 'w') as f:
            json.dump({'stats': dict(total['stats']), 'status': dict(total['status']), 'guard': dict(total['guard']),
                       'notes': dict(total['notes']), 'trans': sorted(total['trans']), 'evals': total['evals'],
                       'steps': total['steps'], 'runs': total['runs'], 'capped': total['capped'],
                       'reported': reported, 'samples': total['samples'][:1]}, f, default=repr)
        return rc
    for hs, prc, part in sub:
        for k in ('stats', 'status', 'guard', 'notes'):
            total[k].update(Counter(part[k]))
        total['trans'] |= set(part['trans'])
        for k in ('evals', 'steps', 'runs'):
            total[k] += part[k]
        total['capped'] = total['capped'] or part['capped']
        reported.extend(part['reported'])
        if prc == 1:
            rc = 1
            total['viols'].extend([None] * len(part['reported']))
    total['wall'] = time.time() - t0
    extra = dict(spec.get('evidence', {}))
    extra['hashseeds'] = ['0'] + [str(hs) for hs, _, _ in sub]
    from . import manifest_data
    extra.setdefault('rule', manifest_data.RULES.get(focus, '') + ' A case = one simulated run (a concrete operation + '
                             'fault history, or one fault-placement variant of it); evaluations = elementary oracle '
                             'comparisons made; distinct_nontrivial = number of distinct (model-state digest, operation '
                             'class) transitions on a non-empty world after which the focused oracle was evaluated, '
                             'counted with a set, not estimated.')
    extra['known_findings_printed'] = known
    extra['reach_probes'] = {r: total['stats'].get(r, 0) for r in engine.REACH.get(focus, [])}
    extra['regression_replays_run'] = getattr(run_regressions, 'count', 0)
    extra['violations_reported'] = reported
    extra['components'] = REAL_VS_STUB
    extra['hashseed'] = os.environ.get('PYTHONHASHSEED')
    write_evidence(focus, a.tier, a.seed, spec.get('level', 'exploration'), total, extra)
    print("%s tier=%s runs=%d ok=%d discarded=%d aborted=%d evals=%d distinct=%d wall=%.1fs%s" % (
        focus, a.tier, total['runs'], total['status'].get('ok', 0), total['status'].get('precondition', 0),
        total['status'].get('abort', 0), total['evals'], len(total['trans']), total['wall'],
        ' (wall-capped)' if total['capped'] else ''))
    return rc
