"""I/O operations: restart through the simulated disk (C09, C10, C11), generated row
streams with noise (C18, C10b, C09 four-column rows), I/O fault injection."""
import copy
import io
import json

import dynetx as dn
from dynetx.readwrite import json_graph

from . import obs, oracles, simfs
from .core import Abort, Precondition, Replica, Violation, call, exc_class
from .model import ModelGraph
from .ops import attrs_mismatch, check_derived, require_source_ok


def P(world):
    """property prefix for oracle ids of I/O operations"""
    return world.focus if world.focus in ('C09', 'C10', 'C11', 'C18') else 'IO'


def nodetype_of(nodes):
    return int if all(isinstance(n, int) for n in nodes) else None


def conv_node(tok, nodetype):
    return nodetype(tok) if nodetype else tok


def split_rows(data, encoding, delimiter):
    txt = data.decode(encoding)
    rows = [ln for ln in txt.split('\n')]
    if rows and rows[-1] == '':
        rows.pop()
    else:
        rows.append(None)      # marker: last line not newline-terminated
    return rows


# ------------------------------------------------------------------ targets
def make_write_target(world, op, path):
    kind = op.get('target', 'path')
    fs = world.fs
    if kind == 'path':
        return path, None
    if kind == 'bytesio':
        b = io.BytesIO()
        return b, b
    if kind == 'simhandle':
        h = fs.open(path, 'wb')
        fs.handles.pop()          # opened by the simulator (the caller), not by the library
        return h, h
    if kind == 'duck':
        d = simfs.DuckFile()
        return d, d
    raise ValueError(kind)


def written_bytes(world, op, path, handle):
    kind = op.get('target', 'path')
    if kind == 'path':
        return simfs.decode_bytes(path, world.fs.files.get(path, b''))
    if kind == 'bytesio' or kind == 'duck':
        return handle.getvalue()
    if kind == 'simhandle':
        handle.flush()
        return bytes(world.fs.files[path])


def make_read_source(world, op, path, data):
    kind = op.get('target', 'path')
    if kind == 'path':
        return path, None
    if kind == 'bytesio':
        b = io.BytesIO(data)
        return b, b
    if kind == 'simhandle':
        world.fs.files[path] = bytearray(data)
        h = world.fs.open(path, 'rb')
        world.fs.handles.pop()
        return h, h
    if kind == 'duck':
        d = simfs.DuckFile(data)
        return d, d
    raise ValueError(kind)


def setup_fs(world, op):
    fs = world.fs
    fs.reset_counters()
    fs.bufsize = op.get('bufsize', 8192)
    fs.rchunk = op.get('rchunk', 8192)
    fs.wchunk = op.get('wchunk', 1 << 30)
    fs.fail_write = fs.fail_read = None
    fs.fail_close = False


def check_handles(world, tag, op, caller_handle, judge=True):
    un = world.fs.unclosed()
    if un and judge:
        raise Violation(tag + '.handles', 'library-left-handle-open', {'op': op, 'open': un})
    if caller_handle is not None and getattr(caller_handle, 'closed', False):
        raise Violation(tag + '.handles', 'library-closed-callers-handle', {'op': op})


# ------------------------------------------------------------------ restart through files
def do_restart(world, rep, op):
    via = op['via']
    if via == 'json':
        return restart_json(world, rep, op)
    g, m = rep.g, rep.m
    tag = P(world)
    require_source_ok(world, rep)
    if not m.removal:
        return {'out': 'skipped', 'fault': False, 'cls': 'skip', 'keys': []}
    fs = world.fs
    world.n_files = getattr(world, 'n_files', 0) + 1
    ext = op.get('ext', '') if op.get('target', 'path') == 'path' else ''
    path = '/sim/f%d%s' % (world.n_files, ext or '.txt')
    wd = op.get('delimiter')            # delimiter used for writing (None -> library default ' ')
    enc = op.get('encoding', 'utf-8')
    nodetype = nodetype_of(list(m.nodes)) if m.nodes else int
    writer = dn.write_snapshots if via == 'snapshots' else dn.write_interactions
    reader = dn.read_snapshots if via == 'snapshots' else dn.read_interactions
    lo, hi = oracles.window(m)
    pre = obs.full(g, lo, hi)
    # ---------------- write
    setup_fs(world, op)
    target, handle = make_write_target(world, op, path)
    PRE = b'# written by the caller before handing the file over\n'
    if op.get('preamble') and handle is not None:
        handle.write(PRE)
    fs.reset_counters()
    fs.fail_write = op.get('fail_write')
    fs.fail_close = bool(op.get('fail_close'))
    fs.write_errno = op.get('errno', 5)
    before_w = fs.fired.get('F-WR', 0) + fs.fired.get('F-CLOSE', 0)
    kw = {'encoding': enc}
    if wd is not None:
        kw['delimiter'] = wd
    st, r = call(writer, g, target, **kw)
    n_writes = fs.n_writes
    injected_w = op.get('fail_write') is not None or op.get('fail_close')
    fired_w = fs.fired.get('F-WR', 0) + fs.fired.get('F-CLOSE', 0) > before_w
    fs.fail_write, fs.fail_close = None, False
    post = obs.full(g, lo, hi)
    if obs.diff(pre, post):
        raise Violation(tag + '.source-unchanged', ','.join(obs.diff(pre, post)), {'op': op})
    if st != 'ok':
        if not fired_w:
            raise Violation(tag + '.write', 'raises', {'op': op, 'exc': exc_class(r), 'msg': str(r)[:200]})
        if not isinstance(r, OSError):
            raise Violation(tag + '.write', 'io-error-mistranslated', {'op': op, 'exc': exc_class(r)})
        world.count('fault.F-WR.raised' if op.get('fail_write') is not None else 'fault.F-CLOSE.raised')
        # whether the stdlib wrappers end up closed after a failed write/flush/close is the
        # standard library's business (gzip leaks its file when the header write fails): recorded
        if world.fs.unclosed():
            world.count('simfs.unclosed-after-write-fault')
        check_handles(world, tag, op, handle, judge=False)
        return {'out': 'OSError', 'fault': True, 'cls': 'restart-write-fault', 'keys': [], 'n_writes': n_writes}
    if fired_w:
        world.count('fault.F-WR.swallowed-or-late')
    check_handles(world, tag, op, handle)
    try:
        data = written_bytes(world, op, path, handle)
        rows = split_rows(data, enc, wd)
    except (OSError, EOFError, ValueError, UnicodeDecodeError) as ex:
        # what is on the simulated disk is not a valid file of the requested flavour / encoding
        raise Violation(tag + '.bytes', 'undecodable-file', {'op': op, 'error': repr(ex)[:200],
                                                             'head': repr(bytes(world.fs.files.get(path, b''))[:40])})
    # the bytes on the simulated disk at return: exactly the rows the statement describes
    if op.get('preamble') and handle is not None:
        # rows are emitted at the handle's position: what the caller wrote before is still there
        if not data.startswith(PRE):
            raise Violation(tag + '.bytes', 'callers-earlier-bytes-overwritten', {'op': op, 'head': repr(data[:80])})
        data = data[len(PRE):]
        rows = split_rows(data, enc, wd)
        world.count('restart.preamble')
    if rows and rows[-1] is None:
        raise Violation(tag + '.bytes', 'last-row-not-terminated', {'op': op, 'tail': repr(data[-40:])})
    d = wd if wd is not None else ' '
    parsed = []
    for ln in rows:
        f = ln.split(d)
        try:
            if via == 'snapshots':
                if len(f) != 3:
                    raise ValueError('fields')
                parsed.append((conv_node(f[0], nodetype), conv_node(f[1], nodetype), int(f[2])))
            else:
                if len(f) != 4 or f[2] not in '+-':
                    raise ValueError('fields')
                parsed.append((conv_node(f[0], nodetype), conv_node(f[1], nodetype), f[2], int(f[3])))
        except ValueError:
            raise Violation(tag + '.bytes', 'malformed-row', {'op': op, 'row': ln})
    world.evals += 1
    if via == 'snapshots':
        got = sorted(((obs.kcanon(m.directed, m.key(u, v)), t) for u, v, t in parsed))
        exp = sorted(((obs.kcanon(m.directed, k), t) for k, s in m.pres.items() for t in s))
        if got != exp:
            raise Violation(tag + '.bytes', 'rows!=presence', {'op': op, 'rows': got[:40], 'model': exp[:40]})
    else:
        st2, s2 = call(lambda: [tuple(e) for e in g.stream_interactions()])
        if st2 != 'ok' or parsed != s2:
            raise Violation(tag + '.bytes', 'rows!=stream', {'op': op, 'rows': parsed[:40], 'stream': repr(s2)[:600]})
    world.count('restart.%s.%s%s' % (via, op.get('target', 'path'), ext if op.get('target', 'path') == 'path' else ''))
    if injected_w and fired_w:
        # the call returned normally although a fault fired: the file above was complete, fine
        pass
    # ---------------- read
    if op.get('preamble') and op.get('target') in ('bytesio', 'simhandle'):
        d0 = wd if wd is not None else ' '
        first = (d0.join(['977', '978', '+', '979']) if via == 'interactions' else d0.join(['977', '978', '979'])) \
            if nodetype is int else \
            (d0.join(['zq', 'zr', '+', '979']) if via == 'interactions' else d0.join(['zq', 'zr', '979']))
        skip = (first + '\n').encode(enc)
        source, rhandle = make_read_source(world, op, path, skip + data)
        rhandle.seek(len(skip))          # the caller has already consumed the first line
    else:
        source, rhandle = make_read_source(world, op, path, data)
    fs.reset_counters()
    fs.rchunk = op.get('rchunk', 8192)
    fs.fail_read = op.get('fail_read')
    before = fs.fired.get('F-RD', 0)
    rd = op.get('read_delimiter', wd)
    rkw = {'directed': m.directed, 'nodetype': nodetype, 'timestamptype': int, 'encoding': enc}
    if rd is not None:
        rkw['delimiter'] = rd
    if op.get('keys'):
        rkw['keys'] = True
    st, h = call(reader, source, **rkw)
    world.last_derived = h if st == 'ok' else None
    fired_r = fs.fired.get('F-RD', 0) > before
    n_reads = fs.n_reads
    fs.fail_read = None
    if fired_r:
        if st == 'ok':
            raise Violation(tag + '.read', 'returned-a-graph-despite-read-error', {'op': op})
        world.count('fault.F-RD.raised')
        if world.fs.unclosed():
            world.count('simfs.unclosed-after-read-fault')
        check_handles(world, tag, op, rhandle, judge=False)
        return {'out': exc_class(h), 'fault': True, 'cls': 'restart-read-fault', 'keys': [], 'n_writes': n_writes,
                'n_reads': n_reads}
    if st != 'ok':
        if via == 'interactions' and m.unclosed2 and any(m.unclosed2.values()) and 'D20' in world.open_guards:
            world.guard_hits['D20'] += 1
            return {'out': exc_class(h), 'fault': False, 'cls': 'restart-guarded', 'keys': []}
        raise Violation(tag + '.read', 'raises', {'op': op, 'exc': exc_class(h), 'msg': str(h)[:200]})
    check_handles(world, tag, op, rhandle)
    # model of the rebuilt graph: the rows replayed in file order
    hm = ModelGraph(m.directed, True)
    if op.get('keys'):
        ts = sorted({x[-1] for x in parsed})
        rank = {t: i for i, t in enumerate(ts)}
    else:
        rank = None
    if via == 'snapshots':
        hm.from_rows([(u, v, rank[t] if rank else t) for u, v, t in parsed])
    else:
        log_to_model(hm, [(u, v, o, rank[t] if rank else t) for u, v, o, t in parsed])
    cls = dn.DynDiGraph if m.directed else dn.DynGraph
    tainted = bool(m.unclosed2 and any(m.unclosed2.values()))
    if via == 'interactions' and tainted and 'D20' in world.open_guards:
        # D20: an unclosed two-instant run (D12a) is written as a single '+': the log itself
        # has lost the second instant; the rebuilt graph is compared with the log's semantics
        world.guard_hits['D20'] += 1
    elif not op.get('keys'):
        # round trip: same presence relation as the source
        src = ModelGraph(m.directed, True)
        src.pres = {k: set(s) for k, s in m.pres.items()}
        src.orient = dict(m.orient)
        for k in src.pres:
            for n in src.orient[k]:
                src.nodes.setdefault(n, {})
        check_derived(world, tag, h, src, cls, op, nodes_exact=False)
    check_derived(world, tag, h, hm, cls, op, nodes_exact=True)
    if via == 'interactions' and not op.get('keys') and not (tainted and 'D20' in world.open_guards):
        st2, s2 = call(lambda: [tuple(e) for e in h.stream_interactions()])

        def per_instant(evs):      # chronological; the order of events inside one instant is free
            return [e[3] for e in evs], sorted(evs, key=lambda e: (e[3], repr(e)))
        if st2 != 'ok' or per_instant(s2) != per_instant(parsed):
            raise Violation(tag + '.roundtrip-stream', 'stream-differs', {'op': op, 'written': parsed[:40],
                                                                           'read_back': repr(s2)[:600]})
    new = Replica(h, hm, 'read_' + via, op['g'])
    world.add_replica(new, op)
    return {'out': 'ok', 'fault': False, 'cls': 'restart', 'keys': [], 'new': len(world.reps) - 1,
            'n_writes': n_writes, 'n_reads': n_reads}


def log_to_model(hm, events):
    """A.10: '+'@t appears at t; a following '-'@s makes the pair present on [latest '+', s-1];
    an unclosed '+' is present at its single instant.  Replayed through apply_add in the order
    the reader performs its adds so that the D12(a) bookkeeping follows."""
    for u, v, op, t in events:
        k = hm.key(u, v)
        if op == '+':
            hm.apply_add(u, v, t)
        else:
            runs = hm.runs(k)
            if runs and runs[-1][1] < t:
                hm.apply_add(u, v, runs[-1][1], t)
    return hm


# ------------------------------------------------------------------ JSON restart (C11)
def restart_json(world, rep, op):
    g, m = rep.g, rep.m
    tag = P(world)
    require_source_ok(world, rep)
    if not m.removal:
        return {'out': 'skipped', 'fault': False, 'cls': 'skip', 'keys': []}
    idk = op.get('idkey', 'id')
    attrs = dict(id=idk, source='source', target='target')
    lo, hi = oracles.window(m)
    pre = obs.full(g, lo, hi)
    st, data = call(json_graph.node_link_data, g, attrs) if idk != 'id' or op.get('pass_attrs') else \
        call(json_graph.node_link_data, g)
    if st != 'ok':
        raise Violation(tag + '.data', 'raises', {'op': op, 'exc': exc_class(data), 'msg': str(data)[:200]})
    post = obs.full(g, lo, hi)
    if obs.diff(pre, post):
        raise Violation(tag + '.source-unchanged', ','.join(obs.diff(pre, post)), {'op': op})
    st, txt = call(json.dumps, data)
    if st != 'ok':
        raise Violation(tag + '.data', 'not-json-serialisable', {'op': op, 'exc': exc_class(txt), 'msg': str(txt)[:200]})
    world.evals += 1
    # ---- the data dict itself
    if data.get('directed') is not m.directed:
        raise Violation(tag + '.data', 'directed-flag', {'got': data.get('directed'), 'model': m.directed})
    gn = {d.get(idk): obs.canon({k: v for k, v in d.items() if k != idk}) for d in data['nodes']}
    en = {n: obs.canon(a) for n, a in m.nodes.items()}
    if len(data['nodes']) != len(gn) or gn != en:
        raise Violation(tag + '.data', 'nodes', {'impl': sorted(map(repr, gn.items())), 'model': sorted(map(repr, en.items()))})
    if obs.canon(data.get('graph')) != obs.canon(m.gattrs):
        raise Violation(tag + '.data', 'graph-attrs', {'impl': repr(data.get('graph')), 'model': repr(m.gattrs)})
    links = [(d['source'], d['target'], d['time']) for d in data['links']]
    for d in data['links']:
        if set(d) != {'source', 'target', 'time'}:
            raise Violation(tag + '.data', 'link-shape', {'link': d})
    got = sorted(((obs.kcanon(m.directed, m.key(u, v)), t) for u, v, t in links))
    exp = sorted(((obs.kcanon(m.directed, k), t) for k, s in m.pres.items() for t in s))
    if got != exp:
        raise Violation(tag + '.data', 'links!=presence', {'op': op, 'links': got[:40], 'model': exp[:40]})
    # ---- through the simulated disk (written and read by the simulator: dynetx does no I/O here)
    world.n_files = getattr(world, 'n_files', 0) + 1
    path = '/sim/j%d.json' % world.n_files
    with world.fs.open(path, 'w') as f:
        f.write(txt)
    with world.fs.open(path, 'r') as f:
        data2 = json.loads(f.read())
    flag = op.get('directed_arg')
    if op.get('drop_directed_key'):
        del data2['directed']
        want_directed = bool(flag)
    else:
        want_directed = m.directed
    args = (data2,) if flag is None else (data2, bool(flag))
    akw = {'attrs': attrs} if idk != 'id' or op.get('pass_attrs') else {}
    if op.get('drop_directed_key') and op.get('twice'):
        # the same parsed dict is first rebuilt with the opposite argument (outcome not judged: rebuilding
        # directed data as undirected may legitimately be rejected), then with the wanted one
        call(json_graph.node_link_graph, data2, not want_directed, **akw)
        world.count('restart.json.same-dict-twice')
    before = copy.deepcopy(data2)
    st, h = call(json_graph.node_link_graph, *args, **akw)
    world.last_derived = h if st == 'ok' else None
    if st != 'ok':
        raise Violation(tag + '.graph', 'raises', {'op': op, 'exc': exc_class(h), 'msg': str(h)[:200]})
    hm = ModelGraph(want_directed, True)
    for n, a in m.nodes.items():
        hm.add_node(n, a)
    hm.gattrs = copy.deepcopy(m.gattrs)
    hm.from_rows(links)
    cls = dn.DynDiGraph if want_directed else dn.DynGraph
    check_derived(world, tag, h, hm, cls, op, nodes_exact=False)
    am = attrs_mismatch(h, hm)
    if am:
        raise Violation(tag + '.graph', 'nodes-or-attrs', dict(am, op=op))
    new = Replica(h, hm, 'node_link_graph', op['g'])
    world.add_replica(new, op)
    world.count('restart.json%s' % ('.no-directed-key' if op.get('drop_directed_key') else ''))
    return {'out': 'ok', 'fault': False, 'cls': 'restart', 'keys': [], 'new': len(world.reps) - 1}


# ------------------------------------------------------------------ generated row streams (C18, C10b, C09)
NOISE = {
    'blank': lambda d: '',
    'spaces': lambda d: '   ',
    'tab': lambda d: '\t',
    'comment': lambda d: '# a comment %s b' % (d or ' '),
    'comment-indented': lambda d: '   # indented comment',
    'short1': lambda d: 'x',
    'short2': lambda d: (d or ' ').join(['x', 'y']),
    'comment2': lambda d: '# first remark # second remark',
}


def _lookup_conv(x):
    # a user-supplied converter whose failure is a KeyError, not a ValueError
    if x.strip().lstrip('+-').isdigit():
        return int(x)
    return {}[x]


def _fraction_conv(x):
    # a user-supplied converter that goes through Fraction (ZeroDivisionError / ValueError on junk)
    from fractions import Fraction
    if not x.strip().lstrip('+-').isdigit():
        return int(Fraction('1/0'))
    return int(Fraction(x))


CONVERTERS = {'int': int, 'lookup': _lookup_conv, 'fraction': _fraction_conv}


def render_rows(op):
    """(noisy lines, clean lines) for a parse operation"""
    d = op.get('delimiter')
    j = d if d is not None else ' '
    fmt = op['fmt']
    clean, noisy = [], []
    deco = op.get('deco', {})
    spell = op.get('spell', {})

    def ts(i, t):
        sp = spell.get(str(i))
        if sp == 'zero':
            return ('-%03d' % -t) if t < 0 else '%03d' % t
        if sp == 'plus' and t >= 0:
            return '+%d' % t
        return str(t)
    for i, row in enumerate(op['rows']):
        if fmt == 'snapshots':
            u, v, t, e = row
            f = [str(u), str(v), ts(i, t)] + ([ts(i, e)] if e is not None else [])
        else:
            u, v, o, t = row
            f = [str(u), str(v), o, ts(i, t)]
        if op.get('bad_row') == i:
            if op.get('bad_field') == 'node':
                f[0] = 'notanumber'
            elif op.get('bad_field') == 'node2':
                f[1] = 'notanumber'
            elif op.get('bad_field') == 'end' and fmt == 'snapshots' and len(f) == 4:
                f[3] = 'notatime'                      # the optional vanishing column of a snapshot row
            else:
                f[-1 if fmt == 'interactions' else 2] = 'notatime'
        ln = j.join(f)
        clean.append(ln)
        dk = deco.get(str(i))
        if dk == 'trail-comment':
            ln = ln + ' # trailing' if d is None or d == ' ' else ln + '# trailing'
        elif dk == 'trail-comment2':
            ln = ln + (' ' if d is None or d == ' ' else '') + '# see #12 # and more'
        elif dk == 'pad':
            ln = '  ' + ln + '  '
        elif dk == 'pad-tab' and d != '\t':
            ln = '\t' + ln + ' \t'
        noisy.append(ln)
    out = list(noisy)
    for pos, kind in sorted(op.get('noise', []), key=lambda x: -x[0]):
        if kind == 'short3-or-5':
            txt = j.join(['x', 'y', '+'] if fmt == 'interactions' else ['x', 'y'])
        elif kind == 'five':
            txt = j.join(['x', 'y', '+', '1', 'extra']) if fmt == 'interactions' else j.join(['x', 'y'])
        elif kind == 'commented-row':
            txt = '#' + (j.join(['3', '4', '+', '1']) if fmt == 'interactions' else j.join(['3', '4', '1'])) + ' # disabled'
        else:
            txt = NOISE[kind](d)
        out.insert(min(pos, len(out)), txt)
    return out, clean


def rows_model(op, directed):
    """model described by the clean rows; returns (model, rejected_at) where rejected_at is the
    index of the first row the documented rule rejects (None if all are accepted)"""
    hm = ModelGraph(directed, True)
    rows = op['rows']
    rank = None
    if op.get('keys'):
        ts = set()
        for r in rows:
            if op['fmt'] == 'snapshots':
                ts.add(r[2])
                if r[3] is not None:
                    ts.add(r[3])
            else:
                ts.add(r[3])
        rank = {t: i for i, t in enumerate(sorted(ts))}
    mp = (lambda t: rank[t]) if rank else (lambda t: t)
    nm = str if op.get('nodetype_str') else (lambda x: x)      # integer labels read with nodetype=str
    for i, r in enumerate(rows):
        if op['fmt'] == 'snapshots':
            u, v, t, e = r
            u, v = nm(u), nm(v)
            t2, e2 = mp(t), (mp(e) if e is not None else None)
            if e2 is not None and e2 <= t2:
                return hm, i
            if hm.rejects(u, v, t2):
                return hm, i
            hm.apply_add(u, v, t2, e2)
        else:
            u, v, o, t = r
            log_to_model(hm, [(nm(u), nm(v), o, mp(t))])
    return hm, None


def do_parse(world, rep_unused, op):
    tag = P(world)
    fmt, directed = op['fmt'], bool(op.get('directed'))
    noisy, clean = render_rows(op)
    d = op.get('delimiter')
    conv = CONVERTERS[op.get('conv', 'int')]
    nodetype = conv if op.get('nodekind', 'int') == 'int' else None
    if op.get('nodetype_str'):
        nodetype = str
    enc = op.get('encoding', 'utf-8')
    parse = dn.parse_snapshots if fmt == 'snapshots' else dn.parse_interactions
    read = dn.read_snapshots if fmt == 'snapshots' else dn.read_interactions
    kw = {'directed': directed, 'nodetype': nodetype, 'timestamptype': conv}
    if d is not None:
        kw['delimiter'] = d
    via = op.get('via', 'parse')
    fs = world.fs
    setup_fs(world, op)

    def run(lines, name):
        if via == 'parse' and not op.get('keys'):
            return call(parse, iter([ln + '\n' for ln in lines]), **kw)
        world.n_files = getattr(world, 'n_files', 0) + 1
        path = '/sim/p%d_%s.txt' % (world.n_files, name)
        fs.files[path] = bytearray(('\n'.join(lines) + ('\n' if lines else '')).encode(enc))
        fs.reset_counters()
        k2 = dict(kw, encoding=enc)
        if op.get('keys'):
            k2['keys'] = True
        r = call(read, path, **k2)
        un = fs.unclosed()
        if un:
            raise Violation(tag + '.handles', 'library-left-handle-open', {'op': op, 'open': un})
        return r

    st_n, gn = run(noisy, 'noisy')
    hm, rejected_at = rows_model(op, directed)
    world.count('parse.%s.%s%s' % (fmt, via, '.keys' if op.get('keys') else ''))
    for pos, kind in op.get('noise', []):
        world.count('fault.F-NOISE.' + kind)
    for kind in op.get('deco', {}).values():
        world.count('fault.F-NOISE.' + kind)
    if op.get('bad_row') is not None and op['bad_row'] < len(op['rows']) and \
            (rejected_at is None or op['bad_row'] <= rejected_at):
        world.count('fault.F-BADFIELD')
        if st_n == 'ok' or not isinstance(gn, TypeError):
            raise Violation(tag + '.conversion', 'no-TypeError', {'op': op, 'got': 'ok' if st_n == 'ok' else exc_class(gn)})
        world.evals += 1
        return {'out': 'TypeError', 'fault': True, 'cls': 'parse-badfield', 'keys': []}
    st_c, gc = run(clean, 'clean')
    world.evals += 1
    if rejected_at is not None:
        # rows that the documented rule rejects: both parses must fail alike (not a C18 matter)
        if (st_n == 'ok') != (st_c == 'ok'):
            raise Violation(tag + '.noise', 'noisy-and-clean-differ-in-outcome', {'op': op})
        return {'out': 'rejected-rows', 'fault': True, 'cls': 'parse-rejected', 'keys': []}
    if st_c != 'ok':
        raise Violation(tag + '.clean', 'raises', {'op': op, 'exc': exc_class(gc), 'msg': str(gc)[:200]})
    if st_n != 'ok':
        raise Violation(tag + '.noise', 'noisy-raises', {'op': op, 'exc': exc_class(gn), 'msg': str(gn)[:200],
                                                         'lines': noisy[:30]})
    lo, hi = oracles.window(hm)
    on, oc = obs.full(gn, lo, hi), obs.full(gc, lo, hi)
    df = obs.diff(oc, on)
    if df:
        raise Violation(tag + '.noise', 'graph-differs:' + ','.join(df), {'op': op, 'lines': noisy[:30],
                                                                         'clean': {k: oc[k] for k in df},
                                                                         'noisy': {k: on[k] for k in df}})
    cls = dn.DynDiGraph if directed else dn.DynGraph
    check_derived(world, tag, gn, hm, cls, op, nodes_exact=True)
    if op.get('nodetype_str'):
        # digit labels read as strings: judged here, but not kept as a replica (the file focuses derive the
        # node type of later copies from the id pool of the run)
        world.count('parse.nodetype-str')
        return {'out': 'ok', 'fault': False, 'cls': 'parse-str', 'keys': []}
    new = Replica(gn, hm, 'parse_' + fmt, None)
    world.add_replica(new, op)
    return {'out': 'ok', 'fault': False, 'cls': 'parse', 'keys': [], 'new': len(world.reps) - 1}


def do_compact(world, rep_unused, op):
    """compact_timeslot is a strictly increasing bijection onto 0..k-1"""
    from dynetx.utils import compact_timeslot
    vals = op['values']
    st, r = call(compact_timeslot, list(vals))
    tag = P(world)
    if st != 'ok':
        raise Violation(tag + '.compact', 'raises', {'op': op, 'exc': exc_class(r)})
    exp = {x: i for i, x in enumerate(sorted(set(vals)))}
    if dict(r) != exp:
        raise Violation(tag + '.compact', 'mapping', {'op': op, 'impl': repr(r)[:300], 'model': repr(exp)[:300]})
    world.evals += 1
    world.count('compact')
    return {'out': 'ok', 'fault': False, 'cls': 'compact', 'keys': []}
