"""Path and temporal-DAG probes (C12, C13, C15): brute-force enumeration straight from the
statement (A.7, A.8) against the model, plus the sampling-PRNG seam."""
import random

import networkx as nx
import numpy as real_np

import dynetx.algorithms as al
import dynetx.algorithms.paths as paths_mod

from .core import Abort, Violation, call, exc_class
from .ops import require_source_ok

LIMIT = 2500
MAX_IDS = 6


class TooBig(Exception):
    pass


# ------------------------------------------------------------------ brute force (A.7)
def window_ids(m, start, end):
    ids = m.instants()
    if not ids:
        return []
    s = ids[0] if start is None else start
    e = ids[-1] if end is None else end
    return [t for t in ids if s <= t <= e]


def brute_paths(m, u, v, ids):
    out = []
    nb = {}

    def nbrs(x, t):
        k = (x, t)
        if k not in nb:
            nb[k] = m.succ(x, t)
        return nb[k]

    def extend(path, node, arrival):
        for t in ids:
            if arrival is not None and t <= arrival:
                continue
            ns = nbrs(node, t)
            if arrival is not None and not ns:
                return                      # the occurrence expires at an instant without neighbours
            for w in ns:
                if path and path[-1][0] == w and path[-1][1] == node:
                    continue                # immediate reversal
                p2 = path + [(node, w, t)]
                if v is None or w == v:
                    out.append(tuple(p2))
                    if len(out) > LIMIT:
                        raise TooBig()
                extend(p2, w, t)
    extend([], u, None)
    return set(out)


def check_path_sound(m, u, v, ids, p, D):
    """every clause of C12 for one returned path; returns None or (clause, detail)"""
    if not isinstance(p, tuple) or len(p) == 0:
        return 'empty-or-not-tuple', repr(p)
    idset = set(ids)
    for i, h in enumerate(p):
        if not (isinstance(h, tuple) and len(h) == 3):
            return 'hop-shape', repr(h)
        a, b, t = h
        if t not in idset:
            return 'time-outside-window', repr(h)
        if not m.present(a, b, t):
            return 'hop-not-present', repr(h)
        if i == 0:
            if a != u:
                return 'first-hop-does-not-leave-u', repr(h)
        else:
            pa, pb, pt = p[i - 1]
            if pb != a:
                return 'hops-do-not-chain', repr((p[i - 1], h))
            if not pt < t:
                return 'times-not-increasing', repr((p[i - 1], h))
            if pa == b and pb == a:
                return 'immediate-reversal', repr((p[i - 1], h))
            for x in ids:
                if pt < x < t and not m.succ(a, x):
                    return 'intermediate-node-idle', repr((p[i - 1], h, x))
    if v is not None and p[-1][1] != v:
        return 'last-hop-misses-v', repr(p[-1])
    return None


# ------------------------------------------------------------------ PRNG seam
class NpProxy:
    """stands in for `np` inside dynetx.algorithms.paths: random.choice is scheduled by the
    simulator, everything else is numpy"""

    def __init__(self, how, rng_seed):
        self.how, self.rs = how, random.Random(rng_seed)
        self.random = self
        self.calls = 0

    def choice(self, n, size=None, replace=True):
        self.calls += 1
        size = int(size)
        idx = list(range(int(n)))
        if self.how == 'first':
            pick = idx[:size]
        elif self.how == 'last':
            pick = idx[len(idx) - size:] if size else []
        else:
            pick = self.rs.sample(idx, size)
        return real_np.array(pick, dtype=int)

    def __getattr__(self, name):
        return getattr(real_np, name)


class _NoTqdm:
    @staticmethod
    def tqdm(it, *a, **k):
        return it


def with_stubs(stub, seed, fn):
    # seams are rebound only if the module still has them (an implementation may sample with
    # `random` instead of numpy: both generators are seeded, so the run stays repeatable)
    missing = object()
    old_np, old_tq = getattr(paths_mod, 'np', missing), getattr(paths_mod, 'tqdm', missing)
    proxy = NpProxy(stub, seed)
    if old_np is not missing:
        paths_mod.np = proxy
    if old_tq is not missing:
        paths_mod.tqdm = _NoTqdm
    random.seed(seed)
    real_np.random.seed(seed % (2 ** 32))
    try:
        return fn(), proxy
    finally:
        if old_np is not missing:
            paths_mod.np = old_np
        if old_tq is not missing:
            paths_mod.tqdm = old_tq


# ------------------------------------------------------------------ probes
def tag_of(world, default):
    return world.focus if world.focus in ('C12', 'C13', 'C15') else default


def norm_result(r):
    """{key: set(paths)} plus structural problems"""
    problems = []
    out = {}
    if isinstance(r, list) and not r:
        return out, problems
    if not hasattr(r, 'items'):
        return None, ['result is neither a dict nor the empty list: %r' % type(r)]
    for k, ps in r.items():
        if not isinstance(k, tuple) or len(k) != 2:
            problems.append('key-not-a-pair %r' % (k,))
        tl = [tuple(p) if not isinstance(p, tuple) else p for p in ps]
        if any(not isinstance(p, tuple) for p in ps):
            problems.append('path-not-a-tuple under %r' % (k,))
        if len(set(tl)) != len(tl):
            problems.append('duplicate-paths under %r' % (k,))
        for p in tl:
            if p and (p[0][0], p[-1][1]) != k:
                problems.append('path filed under the wrong key %r: %r' % (k, p))
        out[k] = set(tl)
    return out, problems


def do_probe_paths(world, rep, op):
    g, m = rep.g, rep.m
    if world.poke:
        from . import oracles as _o
        _o.poke_observers(rep.g, *_o.window(rep.m))
    require_source_ok(world, rep)
    if not m.removal:
        world.count('probe.paths.accumulative')
    u, v, start, end = op['u'], op.get('v'), op.get('start'), op.get('end')
    sample = op.get('sample', 1)
    ids_all = m.instants()
    if not ids_all or u not in m.nodes:
        return {'out': 'skipped', 'fault': False, 'cls': 'skip', 'keys': []}
    s_eff = ids_all[0] if start is None else start
    e_eff = ids_all[-1] if end is None else end
    valid = not (s_eff < ids_all[0] or s_eff > e_eff or e_eff > ids_all[-1])
    present_at_start = bool(m.succ(u, s_eff) or m.pred(u, s_eff)) if start is not None else True
    ids = window_ids(m, start, end)
    if valid and any(m.has_selfloop_at(u, t) for t in ids):
        # "the first hop leaves u": whether a self-loop on the root is a hop is not defined by the
        # statement (the implementation yields it only through an earlier occurrence of u)
        world.count('probe.paths.root-selfloop-in-window(not demanded)')
        return {'out': 'skipped', 'fault': False, 'cls': 'skip', 'keys': []}
    if len(ids) > MAX_IDS:
        world.count('probe.paths.skipped-window-too-long')
        return {'out': 'skipped', 'fault': False, 'cls': 'skip', 'keys': []}
    try:
        full = brute_paths(m, u, v, ids) if valid else set()
    except TooBig:
        world.count('probe.paths.skipped-too-big')
        return {'out': 'skipped', 'fault': False, 'cls': 'skip', 'keys': []}
    (st, r), proxy = with_stubs(op.get('stub', 'random'), op.get('stub_seed', 1),
                                lambda: call(al.time_respecting_paths, g, u, v, start, end, sample))
    t12, t13 = tag_of(world, 'C12'), tag_of(world, 'C13')
    if start is not None and not present_at_start:
        # u has no interaction at an explicitly given start: the result is empty
        if st != 'ok' or len(r) != 0:
            raise Violation(t13 + '.absent-at-start', 'not-empty', {'op': op, 'got': repr(r)[:300] if st == 'ok' else exc_class(r)})
        world.count('probe.paths.absent-at-start')
        world.evals += 1
        return {'out': 'ok', 'fault': False, 'cls': 'probe-paths', 'keys': []}
    if not valid:
        if st == 'ok':
            raise Violation(tag_of(world, 'C15') + '.window', 'invalid-window-accepted', {'op': op})
        if not isinstance(r, ValueError):
            raise Violation(tag_of(world, 'C15') + '.window', 'wrong-exception', {'op': op, 'exc': exc_class(r)})
        world.count('probe.paths.invalid-window')
        return {'out': 'ValueError', 'fault': False, 'cls': 'probe-paths', 'keys': []}
    if st != 'ok':
        raise Violation(t13 + '.raises', exc_class(r), {'op': op, 'msg': str(r)[:200]})
    got, problems = norm_result(r)
    if problems:
        raise Violation(t12 + '.structure', problems[0][:40], {'op': op, 'problems': problems[:3]})
    allgot = set().union(*got.values()) if got else set()
    for p in sorted(allgot, key=repr):
        bad = check_path_sound(m, u, v, ids, p, m.directed)
        if bad:
            raise Violation(t12 + '.sound', bad[0], {'op': op, 'path': repr(p), 'detail': bad[1]})
    world.evals += 1 + len(allgot)
    if sample >= 1:
        if start is not None or (m.succ(u, ids_all[0]) or m.pred(u, ids_all[0])):
            if allgot != full:
                miss, extra = sorted(full - allgot, key=repr)[:3], sorted(allgot - full, key=repr)[:3]
                raise Violation(t13 + '.complete', 'missing' if miss else 'extra',
                                {'op': op, 'missing': repr(miss), 'extra': repr(extra), 'n_model': len(full),
                                 'n_impl': len(allgot)})
            world.count('probe.paths.complete.%s' % ('nonempty' if full else 'empty'))
        else:
            world.count('probe.paths.start-none-u-absent(not demanded)')
    else:
        if not allgot <= full:
            raise Violation(t13 + '.sample', 'not-a-subset', {'op': op, 'extra': repr(sorted(allgot - full, key=repr)[:3])})
        world.count('probe.paths.sampled.%s' % op.get('stub', 'random'))
        if proxy.calls == 0:
            world.count('probe.paths.sampled.numpy-seam-not-reached')   # sampled some other way: subset still asserted
    return {'out': 'ok', 'fault': False, 'cls': 'probe-paths', 'keys': []}


def do_probe_all_paths(world, rep, op):
    """all_time_respecting_paths == per-source aggregation of time_respecting_paths(v=None)"""
    g, m = rep.g, rep.m
    if world.poke:
        from . import oracles as _o
        _o.poke_observers(rep.g, *_o.window(rep.m))
    require_source_ok(world, rep)
    if not m.instants():
        return {'out': 'skipped', 'fault': False, 'cls': 'skip', 'keys': []}
    start, end, min_t = op.get('start'), op.get('end'), op.get('min_t')
    if not m.removal:
        world.count('probe.all.accumulative')
    ids_all = m.instants()
    s_eff = ids_all[0] if start is None else start
    e_eff = ids_all[-1] if end is None else end
    if s_eff < ids_all[0] or s_eff > e_eff or e_eff > ids_all[-1]:
        return {'out': 'skipped', 'fault': False, 'cls': 'skip', 'keys': []}
    t13 = tag_of(world, 'C13')
    ids_w = window_ids(m, start, end)
    if len(ids_w) > MAX_IDS - 1 or any(m.any_selfloop_at(t) for t in ids_w):
        world.count('probe.allpaths.skipped(window too long or self-loops)')
        return {'out': 'skipped', 'fault': False, 'cls': 'skip', 'keys': []}
    try:
        for u in m.nodes_at(min_t):
            brute_paths(m, u, None, ids_w)
    except TooBig:
        world.count('probe.allpaths.skipped-too-big')
        return {'out': 'skipped', 'fault': False, 'cls': 'skip', 'keys': []}
    (st, r), _ = with_stubs('random', 1, lambda: call(al.all_time_respecting_paths, g, start, end, 1, min_t))
    if st != 'ok':
        raise Violation(t13 + '.all.raises', exc_class(r), {'op': op, 'msg': str(r)[:200]})
    exp = {}
    for u in m.nodes_at(min_t):
        (st2, r2), _ = with_stubs('random', 1, lambda: call(al.time_respecting_paths, g, u, None, start, end, 1))
        if st2 != 'ok':
            raise Violation(t13 + '.raises', exc_class(r2), {'op': op, 'u': repr(u)})
        if len(r2) > 0:
            for k, ps in r2.items():
                exp[(u, k[-1])] = set(map(tuple, ps))
    got = {k: set(map(tuple, ps)) for k, ps in r.items()}
    if got != exp:
        ks = [k for k in set(got) | set(exp) if got.get(k) != exp.get(k)][:3]
        raise Violation(t13 + '.all', 'aggregation-differs', {'op': op, 'keys': repr(ks)})
    world.evals += 1
    world.count('probe.allpaths.%s' % ('nonempty' if exp else 'empty'))
    return {'out': 'ok', 'fault': False, 'cls': 'probe-allpaths', 'keys': []}


def parse_occ(name, kind):
    """occurrence names are parsed tolerantly: 'X_t' or (X, t)"""
    if isinstance(name, tuple) and len(name) == 2:
        return name
    if isinstance(name, str) and '_' in name:
        x, t = name.rsplit('_', 1)
        try:
            return kind(x), int(t)
        except ValueError:
            return None
    return None


def do_probe_dag(world, rep, op):
    g, m = rep.g, rep.m
    if world.poke:
        from . import oracles as _o
        _o.poke_observers(rep.g, *_o.window(rep.m))
    require_source_ok(world, rep)
    tag = tag_of(world, 'C15')
    if not m.removal:
        world.count('probe.dag.accumulative')
    u, v, start, end = op['u'], op.get('v'), op.get('start'), op.get('end')
    ids_all = m.instants()
    st, r = call(al.temporal_dag, g, u, v, start, end)
    if not ids_all:
        if st != 'ok' or r[0].number_of_nodes() != 0 or list(r[1]) or list(r[2]):
            raise Violation(tag + '.empty', 'no-snapshots-not-empty-dag', {'op': op})
        world.count('probe.dag.no-snapshots')
        return {'out': 'ok', 'fault': False, 'cls': 'probe-dag', 'keys': []}
    s_eff = ids_all[0] if start is None else start
    e_eff = ids_all[-1] if end is None else end
    valid = not (s_eff < ids_all[0] or s_eff > e_eff or e_eff > ids_all[-1])
    if not valid:
        if st == 'ok' or not isinstance(r, ValueError):
            raise Violation(tag + '.window', 'invalid-window-not-ValueError', {'op': op, 'got': 'ok' if st == 'ok' else exc_class(r)})
        world.count('probe.dag.invalid-window')
        world.evals += 1
        return {'out': 'ValueError', 'fault': False, 'cls': 'probe-dag', 'keys': []}
    if st != 'ok':
        raise Violation(tag + '.raises', exc_class(r), {'op': op, 'msg': str(r)[:200]})
    dag, sources, targets = r[0], list(r[1]), list(r[2])
    kind = type(u)
    ids = [t for t in ids_all if s_eff <= t <= e_eff]
    if not nx.is_directed_acyclic_graph(dag):
        raise Violation(tag + '.acyclic', 'cycle', {'op': op})
    src_occ = set()
    for s in sources:
        o = parse_occ(s, kind)
        if o is None:
            raise Violation(tag + '.sources', 'unparsable', {'op': op, 'name': repr(s)})
        src_occ.add(o)
    exp_src = {(u, t) for t in ids if m.succ(u, t)}
    if src_occ != exp_src:
        raise Violation(tag + '.sources', 'sources', {'op': op, 'impl': sorted(src_occ, key=repr), 'model': sorted(exp_src, key=repr)})
    for a, b in dag.edges():
        oa, ob = parse_occ(a, kind), parse_occ(b, kind)
        if oa is None or ob is None:
            raise Violation(tag + '.edges', 'unparsable', {'op': op, 'edge': repr((a, b))})
        (x, s), (y, t) = oa, ob
        if t not in ids:
            raise Violation(tag + '.edges', 'time-outside-window', {'op': op, 'edge': repr((a, b)), 'window_ids': ids})
        if not m.present(x, y, t):
            raise Violation(tag + '.edges', 'no-such-interaction', {'op': op, 'edge': repr((a, b))})
        if not (s < t or (s == t and oa in src_occ)):
            raise Violation(tag + '.edges', 'time-order', {'op': op, 'edge': repr((a, b))})
    nodes = set(dag.nodes())
    for s in sources:
        if s not in nodes:
            raise Violation(tag + '.sources', 'source-not-in-dag', {'op': op, 'name': repr(s)})
    for tname in targets:
        if tname not in nodes:
            raise Violation(tag + '.targets', 'target-not-in-dag', {'op': op, 'name': repr(tname)})
        o = parse_occ(tname, kind)
        if o is None:
            raise Violation(tag + '.targets', 'unparsable', {'op': op, 'name': repr(tname)})
        if v is not None and o[0] != v:
            raise Violation(tag + '.targets', 'target-is-not-v', {'op': op, 'name': repr(tname)})
    world.evals += 1 + dag.number_of_edges()
    world.count('probe.dag.%s' % ('nonempty' if dag.number_of_edges() else 'empty'))
    if e_eff < ids_all[-1]:
        world.count('probe.dag.window-ends-before-last-id')
    return {'out': 'ok', 'fault': False, 'cls': 'probe-dag', 'keys': []}
