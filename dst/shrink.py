"""Minimisation of a failing concrete operation list (DESIGN.md section 4): ddmin over the
list, then argument shrinking; a candidate is accepted only if it fails with the same
oracle id and sub-kind."""
import copy


def same(res, sig):
    return res.status == 'violation' and (res.violation['oracle'], res.violation['sub']) == sig


def ddmin(ops, fails):
    n = 2
    while len(ops) >= 2:
        chunk = max(1, len(ops) // n)
        reduced = False
        for i in range(0, len(ops), chunk):
            cand = ops[:i] + ops[i + chunk:]
            if cand and fails(cand):
                ops, n, reduced = cand, max(n - 1, 2), True
                break
        if not reduced:
            if chunk == 1:
                break
            n = min(len(ops), n * 2)
    return ops


INSTANT_FIELDS = ('t', 'e', 't_from', 't_to', 'start', 'end', 'min_t')


def all_instants(ops):
    out = []
    for op in ops:
        for f in INSTANT_FIELDS:
            if isinstance(op.get(f), int) and not isinstance(op.get(f), bool):
                out.append(op[f])
    return out


def shift(ops, d):
    out = copy.deepcopy(ops)
    for op in out:
        for f in INSTANT_FIELDS:
            if isinstance(op.get(f), int) and not isinstance(op.get(f), bool):
                op[f] -= d
    return out


def map_nodes(x, f):
    if isinstance(x, list):
        return [map_nodes(y, f) for y in x]
    return f(x)


def renumber(ops):
    seen = {}

    def see(n):
        if isinstance(n, (int, str)) and not isinstance(n, bool):
            seen.setdefault(n, None)
    for op in ops:
        for fld in ('u', 'v', 'n'):
            if fld in op:
                see(op[fld])
        for fld in ('items', 'ns'):
            for x in op.get(fld, []) or []:
                for y in (x if isinstance(x, list) else [x]):
                    see(y)
    keys = list(seen)
    if not keys:
        return None
    if any(isinstance(o.get(f), (list, tuple)) for o in ops for f in ('u', 'v', 'n')):
        return None        # tuple ids are left alone
    if all(isinstance(k, int) for k in keys):
        mp = {k: i for i, k in enumerate(keys)}
    elif all(isinstance(k, str) for k in keys):
        mp = {k: 'abcdefghijklmnop'[i] for i, k in enumerate(keys)}
    else:
        return None
    if all(k == v for k, v in mp.items()):
        return None
    out = copy.deepcopy(ops)
    for op in out:
        for fld in ('u', 'v', 'n'):
            if fld in op and op[fld] in mp:
                op[fld] = mp[op[fld]]
        for fld in ('items', 'ns'):
            if op.get(fld):
                op[fld] = map_nodes(op[fld], lambda z: mp.get(z, z))
    return out


def simplify_args(ops, fails):
    # instants towards the origin
    ins = all_instants(ops)
    if ins and min(ins) != 0:
        cand = shift(ops, min(ins))
        if fails(cand):
            ops = cand
    cand = renumber(ops)
    if cand and fails(cand):
        ops = cand
    changed = True
    while changed:
        changed = False
        for i, op in enumerate(ops):
            trials = []
            if op.get('op') == 'add':
                if op.get('e') is not None:
                    trials.append(dict(op, e=None))
                    if op.get('t') is not None and op['e'] - op['t'] > 1:
                        trials.append(dict(op, e=op['e'] - 1))
                if op.get('sp') not in (None, 'pos', 'no_t'):
                    trials.append(dict(op, sp='pos'))
            if op.get('op') == 'bulk':
                if len(op['items']) > 1:
                    for j in range(len(op['items'])):
                        trials.append(dict(op, items=op['items'][:j] + op['items'][j + 1:]))
                if op.get('container') not in (None, 'list') and op.get('raise_after') is None:
                    trials.append(dict(op, container='list'))
                if op.get('e') is not None:
                    trials.append(dict(op, e=None))
                if op.get('kind') == 'from' and len(op['items']) == 1 and op.get('raise_after') is None:
                    u, v = op['items'][0]
                    trials.append({'op': 'add', 'g': op['g'], 'u': u, 'v': v, 't': op['t'], 'e': op.get('e'),
                                   'sp': 'pos'})
            if op.get('op') == 'node' and op.get('attrs'):
                trials.append(dict(op, attrs={}))
            for tr in trials:
                cand = ops[:i] + [tr] + ops[i + 1:]
                if fails(cand):
                    ops, changed = cand, True
                    break
            if changed:
                break
    return ops


def minimise(ops, sig, runner, budget=400):
    calls = [0]

    def fails(cand):
        if calls[0] >= budget:
            return False
        calls[0] += 1
        return same(runner(cand), sig)

    ops = ddmin(list(ops), fails)
    ops = simplify_args(ops, fails)
    ops = ddmin(ops, fails)
    return ops, calls[0]
