"""Self-tests (DESIGN.md section 9): determinism of the simulator, guard audit."""
import os
import subprocess
import sys

ROOT = os.path.dirname(os.path.dirname(os.path.abspath(__file__)))
PROPS = ['C01', 'C02', 'C03', 'C04', 'C05', 'C06', 'C07', 'C08', 'C09', 'C10', 'C11', 'C12', 'C13', 'C15', 'C16',
         'C17', 'C18', 'C19', 'C20']


def digest(prop, runs, hashseed, jobs, seed):
    env = dict(os.environ)
    env.pop('DST_REEXEC', None)
    env.pop('PYTHONHASHSEED', None)
    env['VERIF_HASHSEED'] = str(hashseed)
    p = subprocess.run([sys.executable, os.path.join(ROOT, 'check'), prop, '--digest', '--runs', str(runs),
                        '--jobs', str(jobs), '--seed', str(seed)], capture_output=True, text=True, env=env, timeout=1800)
    line = [ln for ln in p.stdout.splitlines() if ln.startswith('DIGEST')]
    if not line:
        raise SystemExit("HARNESS-ERROR no digest from %s: %s %s" % (prop, p.stdout[-300:], p.stderr[-300:]))
    return line[0].split()[5], line[0]


def determinism(props, runs=500, seed=7):
    """the same seeds executed in separate interpreters, at 1 and 16 workers and under another
    PYTHONHASHSEED, must give identical event-log digests"""
    bad = 0
    for p in props:
        bad0 = bad
        ref, l0 = digest(p, runs, 0, 16, seed)
        for hs, jobs in ((0, 16), (0, 1), (1, 16), (4242, 3)):
            d, l1 = digest(p, runs, hs, jobs, seed)
            if d != ref:
                bad += 1
                print("NON-DETERMINISTIC %s: %s vs %s" % (p, l0, l1))
        if bad == bad0:
            print("determinism %s ok: %d runs x 5 executions (hash seeds 0/1/4242, 1/3/16 workers) %s" % (p, runs, ref[:16]))
    return bad


def guard_audit(runs=6000):
    """for every open finding: (a) its scripted history still fails, (b) with that one guard
    disabled the check of its property does report violations (the guard is necessary)"""
    sys.path.insert(0, ROOT)
    sys.path.insert(0, '/repo')
    from dst import findings, scripted
    bad = 0
    for e in findings.open_findings():
        still = scripted.run_script(e)
        env = dict(os.environ, DST_DISABLE_GUARD=e['id'])
        env.pop('DST_REEXEC', None)
        p = subprocess.run([sys.executable, os.path.join(ROOT, 'check'), e['property'], '--runs', str(runs), '--no-min'],
                           capture_output=True, text=True, env=env, timeout=1800)
        fires = p.returncode == 1 and 'VIOLATION' in p.stdout
        print("guard-audit %s (%s): scripted history still fails=%s; violations without the guard=%s" % (
            e['id'], e['property'], still, fires))
        if not (still and fires):
            bad += 1
    return bad


if __name__ == '__main__':
    what = sys.argv[1]
    props = sys.argv[2:] or PROPS
    if what == 'guard-audit':
        sys.exit(1 if guard_audit() else 0)
    if what == 'determinism':
        sys.exit(1 if determinism(props) else 0)
