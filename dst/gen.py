"""Seeded, class-directed generation of operations (DESIGN.md 3.2, 5).

Everything is drawn from the single run PRNG handed in; generation consults the *models*
only, never the real graphs.
"""
ORIGINS = (0, 0, -7, 10 ** 9)
FAR_ORIGINS = (2 ** 31 - 3, -(2 ** 31) - 4, 2 ** 53 + 1, -(10 ** 12))   # 32-bit / float-mantissa boundaries (scale runs)
INT_NODES_XL = list(range(12))
STR_NODES_XL = list('abcdefghijkl')
INT_NODES = [0, 1, 2, 3, 4, 5]
STR_NODES = ['a', 'b', 'c', 'd', 'e', 'f']
TUPLE_NODES = [(0, 1), (1, 0), (2, 2), (0,), (1, 2, 3), (5, 0)]
STR_NODES_X = ['a', '\u00f1', 'c', '\u00e9', 'e', '\u00fc']     # non-ASCII ids (I/O focuses): encodings must matter
SPAN_CLASSES = ['gap', 'adjacent', 'overlap', 'overlap-samestart', 'contained', 'dup', 'ooo']


def wchoice(rng, table):
    """table: list of (item, weight)"""
    tot = sum(w for _, w in table)
    x = rng.random() * tot
    for it, w in table:
        x -= w
        if x <= 0:
            return it
    return table[-1][0]


def swarm(rng, focus, tier='quick'):
    """per-run configuration (swarm style): sizes, enabled classes, rates"""
    pool = list(INT_NODES) if rng.random() < 0.7 else list(STR_NODES)
    if focus in ('C09', 'C10', 'C18', 'C11') and rng.random() < 0.25:
        pool = list(STR_NODES_X)
    if focus in ('C11', 'C01', 'C02', 'C16') and isinstance(pool[0], str) and rng.random() < 0.4:
        pool = ['', 'b', 'c', 'd', 'e', 'f']          # the empty string is a legal (falsy) node id
    if focus in ('C09', 'C10', 'C18') and isinstance(pool[0], str) and pool[0] == 'a' and rng.random() < 0.3:
        pool = ['New York', 'b', 'c d', 'Rio', 'e', 'f g h']   # ids with inner blanks: only with non-blank delimiters
    if focus in ('C12', 'C13', 'C15', 'C20', 'C02') and rng.random() < 0.3:
        # ids whose text is a prefix of another id's text (occurrence names are built from str(id))
        pool = [1, 12, 2, 21, 11, 0] if isinstance(pool[0], int) else ['a', 'ab', 'b', 'ba', 'aa', 'c']
    if focus in ('C01', 'C04', 'C05', 'C07', 'C08', 'C19', 'C02', 'C03') and rng.random() < 0.12:
        pool = list(TUPLE_NODES)                    # any hashable id: tuples (they become lists in JSON replay files)
    if tier == 'thorough' and rng.random() < 0.3 and pool in (INT_NODES, STR_NODES):
        pool = pool + ([6, 7] if pool is INT_NODES or pool == INT_NODES else ['g', 'h'])     # larger universes in the thorough tier
    scale = focus not in ('C12', 'C13', 'C15', 'C20') and rng.random() < (0.12 if tier == 'thorough' else 0.05)
    if scale and pool in (INT_NODES, STR_NODES):
        pool = list(INT_NODES_XL) if pool == INT_NODES else list(STR_NODES_XL)
    cfg = {
        'origin': rng.choice(ORIGINS),
        'nodes': pool[:rng.randint(2, len(pool))],
        'steps': rng.randint(3, 40) if rng.random() < 0.5 else rng.randint(3, 12),
        'horizon': rng.randint(6, 14),
        'w': {},
        'off': [],
    }
    # each span class is switched off in a random third of the runs so rare ones are not drowned
    for c in SPAN_CLASSES:
        if rng.random() < 0.25:
            cfg['off'].append(c)
    if tier == 'thorough' and rng.random() < 0.3:
        cfg['steps'] = rng.randint(30, 70)          # longer histories
        cfg['horizon'] = rng.randint(10, 20)
    cfg['p_fault'] = rng.choice([0.0, 0.05, 0.15, 0.3])
    cfg['p_bulk'] = rng.choice([0.0, 0.1, 0.25])
    cfg['p_node'] = rng.choice([0.0, 0.05, 0.15])
    cfg['p_selfloop'] = rng.choice([0.0, 0.1, 0.2])
    cfg['p_swap'] = rng.choice([0.0, 0.3, 0.5])
    cfg['p_span'] = rng.choice([0.2, 0.5, 0.8])
    cfg['p_newpair'] = rng.choice([0.15, 0.3, 0.6])
    cfg['maxlen'] = 5
    if scale:
        # magnitude: more nodes, many more instants, long spans, long histories, far-away origins;
        # the engine checks such runs sparsely (every 5th / 10th step or at the end only)
        cfg['scale'] = True
        cfg['nodes'] = pool[:rng.randint(min(8, len(pool)), len(pool))]
        cfg['steps'] = rng.randint(40, 90)
        cfg['horizon'] = rng.randint(24, 48)
        cfg['maxlen'] = rng.choice([5, 14, 22])
        if rng.random() < 0.4:
            cfg['origin'] = rng.choice(FAR_ORIGINS)
    return cfg


def pick_pair(rng, m, cfg):
    nodes = cfg['nodes']
    keys = [m.pair(k) for k in m.keys()]
    if keys and rng.random() > cfg['p_newpair']:
        u, v = rng.choice(keys)
    else:
        u = rng.choice(nodes)
        if rng.random() < cfg['p_selfloop'] or len(nodes) < 2:
            v = u
        else:
            v = rng.choice([n for n in nodes if n != u])     # self-loops only when asked for
        if m.directed and keys and rng.random() < 0.3:
            a, b = rng.choice(keys)
            u, v = b, a                      # reciprocal of an existing directed pair
    if not m.directed and rng.random() < cfg['p_swap']:
        u, v = v, u
    return u, v


def event_instants(m):
    s = set()
    for k in m.keys():
        for a, b in m.runs(k):
            s.add(a); s.add(b + 1)
    return sorted(s)


def gen_span(rng, m, u, v, cfg, want=None):
    """returns (t, e, cls); cls in SPAN_CLASSES or 'first'"""
    k = m.key(u, v)
    runs = m.runs(k) if m.removal else ([[m.first[k], m.first[k]]] if k in m.first else [])
    o, hz = cfg['origin'], cfg['horizon']
    ids = m.instants()
    if ids and abs(ids[0] - o) > 64:
        o = ids[0]          # replicas rebuilt with compacted timestamps live near their own origin
    length = 1 if rng.random() > cfg['p_span'] else rng.randint(1, cfg.get('maxlen', 5))
    point = rng.random() > cfg['p_span']
    if not runs:
        cls = 'first'
        ev = event_instants(m)
        if ev and rng.random() < 0.6:
            a = rng.choice(ev) + rng.choice([-1, 0, 0, 1]) - rng.choice([0, 0, length])
        else:
            a = o + rng.randint(0, max(1, hz // 2))
    else:
        ls, le = runs[-1]
        cands = [c for c in SPAN_CLASSES if c not in cfg['off']] or ['gap']
        if le - o >= hz:
            cands = [c for c in cands if c in ('contained', 'dup', 'ooo')] or ['contained']
        weights = {'gap': 3, 'adjacent': 3, 'overlap': 3, 'overlap-samestart': 2, 'contained': 3, 'dup': 1,
                   'ooo': 0}
        cls = want or wchoice(rng, [(c, weights[c]) for c in cands if weights[c] > 0] or [('gap', 1)])
        if cls == 'gap':
            a = le + 2 + rng.randint(0, 2)
        elif cls == 'adjacent':
            a = le + 1
        elif cls == 'overlap':
            a = rng.randint(ls, le)
            length = (le - a + 1) + rng.randint(1, 3)
            point = False
        elif cls == 'overlap-samestart':
            a = ls
            length = (le - ls + 1) + rng.randint(1, 3)
            point = False
        elif cls == 'contained':
            a = rng.randint(ls, le)
            length = rng.randint(1, le - a + 1)
        elif cls == 'dup':
            a, length = ls, le - ls + 1
        elif cls == 'ooo':
            a = ls - 1 - rng.randint(0, 2)
        else:
            raise ValueError(cls)
    if point and length == 1:
        return a, None, cls
    return a, a + length, cls


def gen_add(rng, rep, cfg, fault=None):
    m = rep.m
    u, v = pick_pair(rng, m, cfg)
    if fault == 'F-NOT':
        return {'op': 'add', 'u': u, 'v': v, 't': None, 'e': rng.choice([None, cfg['origin'] + 3]),
                'sp': 'no_t'}
    want = None
    if fault == 'F-ORD':
        ks = [m.pair(k) for k in m.keys()]
        if not ks:
            return None
        u, v = rng.choice(ks)
        if not m.directed and rng.random() < 0.5:
            u, v = v, u
        want = 'ooo'
    t, e, cls = gen_span(rng, m, u, v, cfg, want)
    return {'op': 'add', 'u': u, 'v': v, 't': t, 'e': e, 'sp': rng.choice(['pos', 'kw', 'kw_all'])}


def gen_bulk(rng, rep, cfg, fault=None):
    m = rep.m
    kind = rng.choice(['from', 'from', 'path', 'star', 'cycle'])
    if m.directed and kind in ('star', 'cycle') and rng.random() < 0.5:
        kind = 'path'
    form = 'method'
    if kind != 'from' and (rng.random() < 0.4 or (m.directed and kind != 'path')):
        form = 'func'
    # pivot pair decides the instant
    u, v = pick_pair(rng, m, cfg)
    t, e, cls = gen_span(rng, m, u, v, cfg)
    if kind != 'from' and form == 'method':
        e = None
    nodes = cfg['nodes']
    if kind == 'from':
        n = rng.randint(1, 4)
        items = [[u, v]] + [list(pick_pair(rng, m, cfg)) for _ in range(n - 1)]
        rng.shuffle(items)
        container = rng.choice(['list', 'tuple3', 'gen'])
    else:
        ln = rng.randint(1 if kind != 'star' else 1, min(5, len(nodes) + 1))
        items = [rng.choice(nodes) for _ in range(ln)]
        if rng.random() < 0.6:
            items = [u, v] + items[2:]
        container = rng.choice(['list', 'gen'])
    op = {'op': 'bulk', 'kind': kind, 'form': form, 'items': items, 't': t, 'e': e, 'container': container,
          't_kw': rng.random() < 0.7}
    if fault == 'F-NOT':
        op['t'] = None
    elif fault == 'F-ITER' and kind == 'from':
        op['container'] = 'gen'
        op['raise_after'] = rng.randint(0, len(items))
    elif fault == 'F-BULK' and m.removal:
        # make one element out-of-order for its pair at instant t: choose a pair whose latest run
        # starts after t, else move t before some pair's latest run
        late = [m.pair(k) for k in m.keys() if m.runs(k) and m.runs(k)[-1][0] > op['t']]
        if not late:
            ks = [k for k in m.keys() if m.runs(k)]
            if not ks:
                return op
            k = rng.choice(ks)
            op['t'] = m.runs(k)[-1][0] - 1 - rng.randint(0, 1)
            if op['e'] is not None:
                op['e'] = op['t'] + rng.randint(1, 3)
            late = [m.pair(k)]
        bad = list(rng.choice(late))
        if kind == 'from':
            items.insert(rng.randint(0, len(items)), bad)
        else:
            pos = rng.randint(0, len(items))
            items[pos:pos] = bad
    return op


ATTR_POOL = [{'Label': 'A'}, {'Label': 'B'}, {'w': 1}, {'tags': ['x']}, {'meta': {'k': [1, 2]}}, {},
             {'source': 'feed'}, {'target': 7, 'time': 3}, {'links': [1]}, {'nodes': 'n', 'graph': 'g'}]


def gen_node(rng, rep, cfg):
    m = rep.m
    nodes = cfg['nodes']
    kind = rng.choice(['add_node', 'add_nodes_from', 'update_node_attr', 'update_node_attr_from',
                       'set_node_attributes', 'graph_attr'])
    attrs = rng.choice(ATTR_POOL)
    if kind in ('add_node', 'update_node_attr'):
        return {'op': 'node', 'kind': kind, 'n': rng.choice(nodes), 'attrs': attrs}
    if kind == 'graph_attr':
        return {'op': 'node', 'kind': kind, 'attrs': rng.choice([{'name': 'g'}, {'k': [1]}, {'d': {'x': 1}}])}
    if kind != 'set_node_attributes':
        attrs = rng.choice([a for a in ATTR_POOL if not any(isinstance(v, (list, dict)) for v in a.values())])
    return {'op': 'node', 'kind': kind, 'ns': rng.sample(nodes, rng.randint(1, len(nodes))), 'attrs': attrs}


# ------------------------------------------------------------------ derivations
def gen_window(rng, m, cfg):
    """window chosen by class relative to the runs"""
    ids = m.instants()
    o = cfg['origin']
    if not ids:
        a = o + rng.randint(0, 5)
        return a, a + rng.randint(0, 3)
    runs = [r for k in m.keys() for r in m.runs(k)]
    s, e = rng.choice(runs)
    cls = rng.choice(['inside', 'head', 'tail', 'exact', 'touch-end', 'after-end', 'all', 'none', 'point',
                      'random'])
    if cls == 'inside':
        a = rng.randint(s, e); b = rng.randint(a, e)
    elif cls == 'head':
        a = s - rng.randint(1, 3); b = rng.randint(s, e)
    elif cls == 'tail':
        a = rng.randint(s, e); b = e + rng.randint(1, 3)
    elif cls == 'exact':
        a, b = s, e
    elif cls == 'touch-end':
        a, b = e, e + rng.randint(0, 2)
    elif cls == 'after-end':
        a, b = e + 1, e + 1 + rng.randint(0, 2)
    elif cls == 'all':
        a, b = ids[0] - rng.randint(0, 2), ids[-1] + rng.randint(0, 2)
    elif cls == 'none':
        a = ids[-1] + 2 + rng.randint(0, 2); b = a + rng.randint(0, 2)
    elif cls == 'point':
        a = b = rng.randint(ids[0] - 1, ids[-1] + 1)
    else:
        a = rng.randint(ids[0] - 2, ids[-1] + 2); b = a + rng.randint(0, 6)
    return a, b


def gen_slice(rng, rep, cfg):
    a, b = gen_window(rng, rep.m, cfg)
    x = rng.random()
    if x < 0.08:
        return {'op': 'slice', 't_from': b + 1 + rng.randint(0, 2), 't_to': b, 'form': rng.choice(['method', 'func'])}
    if x < 0.25:
        a2, b2 = gen_window(rng, rep.m, cfg)
        return {'op': 'slice2', 'w1': [a, b], 'w2': [a2, b2]}
    if a == b and rng.random() < 0.5:
        return {'op': 'slice', 't_from': a, 't_to': None, 'form': rng.choice(['method', 'func']),
                'pass_none': rng.random() < 0.3}
    return {'op': 'slice', 't_from': a, 't_to': b, 'form': rng.choice(['method', 'func'])}


def gen_convert(rng, rep, cfg):
    if rep.m.directed:
        return {'op': 'convert', 'to': 'undirected', 'reciprocal': rng.random() < 0.4,
                'default_arg': rng.random() < 0.3}
    return {'op': 'convert', 'to': 'directed'}


def gen_mutate_attr(rng, rep, cfg):
    if rng.random() < 0.3:
        return {'op': 'mutate_attr', 'kind': 'graph_nested', 'val': rng.randint(0, 99)}
    ns = list(rep.m.nodes) or cfg['nodes']
    return {'op': 'mutate_attr', 'kind': 'node_nested', 'n': rng.choice(ns), 'val': rng.randint(0, 99)}


# ------------------------------------------------------------------ I/O
DELIMS = [None, None, ' ', ',', '\t', ';', '|']
ENCODINGS = ['utf-8', 'utf-8', 'latin-1', 'ascii', 'cp1252']


def gen_restart(rng, rep, cfg, via, faults=False):
    op = {'op': 'restart', 'via': via}
    if via == 'json':
        op['idkey'] = rng.choice(['id', 'id', 'nid'])
        op['pass_attrs'] = rng.random() < 0.3
        x = rng.random()
        if x < 0.25:
            op['directed_arg'] = rng.random() < 0.5          # key present: the argument must be ignored
        elif x < 0.45:
            op['drop_directed_key'] = True
            op['directed_arg'] = True if (not rep.m.directed and rng.random() < 0.3) else rep.m.directed
            op['twice'] = rng.random() < 0.5
        return op
    op['target'] = rng.choice(['path', 'path', 'path', 'bytesio', 'simhandle', 'duck'])
    op['ext'] = rng.choice(['', '', '.gz', '.gzip', '.bz2'])
    op['delimiter'] = rng.choice(DELIMS)
    blank_ids = any(isinstance(n, str) and ' ' in n for n in cfg['nodes'])
    if blank_ids:
        op['delimiter'] = rng.choice([',', '\t', ';', '|', '\t'])
    if op['delimiter'] in (' ', '\t') and rng.random() < 0.5 and not blank_ids:
        op['read_delimiter'] = None
    op['encoding'] = rng.choice(ENCODINGS)
    nonascii = any(isinstance(n, str) and not n.isascii() for n in cfg['nodes'])
    if nonascii and op['encoding'] == 'ascii':
        op['encoding'] = 'latin-1'
    op['bufsize'] = rng.choice([16, 64, 512, 8192])
    op['rchunk'] = rng.choice([1, 7, 64, 8192])
    op['wchunk'] = rng.choice([3, 50, 1 << 30])
    if op['target'] in ('bytesio', 'simhandle') and rng.random() < 0.4:
        op['preamble'] = True          # the caller's handle is not at position 0 when the library gets it
    if op['target'] == 'path' and op['ext'] == '' and rng.random() < 0.25 and \
            (not nonascii or op['encoding'] == 'utf-8'):     # the second pass of keys=True reads with the default codec
        op['keys'] = True
    if faults:
        x = rng.random()
        if x < 0.4:
            op['fail_write'] = rng.randint(0, 6)
            op['errno'] = rng.choice([5, 28])
        elif x < 0.5:
            op['fail_close'] = True
        elif x < 0.9:
            op['fail_read'] = rng.randint(0, 8)
    return op


def gen_rows(rng, cfg, fmt, directed):
    """a well-formed row list from a private random history"""
    from .model import ModelGraph
    pm = ModelGraph(directed, True)
    rows = []
    n = rng.randint(1, 10)
    if fmt == 'snapshots':
        for _ in range(n):
            u, v = pick_pair(rng, pm, cfg)
            t, e, cls = gen_span(rng, pm, u, v, cfg)
            pm.apply_add(u, v, t, e)
            rows.append([u, v, t, e])
        return rows
    # interaction log: per pair alternating + / -, merged chronologically
    for _ in range(n):
        u, v = pick_pair(rng, pm, cfg)
        t, e, cls = gen_span(rng, pm, u, v, cfg)
        pm.apply_add(u, v, t, e)
    ev = []
    for k in pm.keys():
        u, v = pm.pair(k)
        for a, b in pm.runs(k):
            ev.append((a, 1, [u, v, '+', a]))
            if b > a or rng.random() < 0.5:
                ev.append((b + 1, 0, [u, v, '-', b + 1]))
    rng.shuffle(ev)
    ev.sort(key=lambda x: (x[0], x[1]))
    return [x[2] for x in ev]


def gen_parse(rng, cfg):
    fmt = rng.choice(['snapshots', 'interactions'])
    directed = rng.random() < 0.5
    rows = gen_rows(rng, cfg, fmt, directed)
    blank_ids = any(isinstance(n, str) and ' ' in n for n in cfg['nodes'])
    op = {'op': 'parse', 'fmt': fmt, 'directed': directed, 'rows': rows,
          'delimiter': rng.choice([',', '\t', ';', '|', '\t']) if blank_ids else rng.choice(DELIMS),
          'nodekind': 'int' if isinstance(cfg['nodes'][0], int) else 'str',
          'via': rng.choice(['parse', 'read']), 'rchunk': rng.choice([1, 7, 8192]), 'bufsize': rng.choice([16, 8192])}
    kinds = ['blank', 'spaces', 'tab', 'comment', 'comment-indented', 'short1', 'short2', 'short3-or-5', 'five',
             'comment2', 'commented-row']
    op['noise'] = [[rng.randint(0, len(rows)), rng.choice(kinds)] for _ in range(rng.randint(0, 5))]
    op['deco'] = {str(i): rng.choice(['trail-comment', 'trail-comment2', 'pad', 'pad-tab']) for i in range(len(rows))
                  if rng.random() < 0.25}
    op['spell'] = {str(i): rng.choice(['zero', 'plus']) for i in range(len(rows)) if rng.random() < 0.2}
    nonascii = any(isinstance(n, str) and not n.isascii() for n in cfg['nodes'])
    op['encoding'] = rng.choice(['utf-8', 'latin-1', 'cp1252'] if nonascii else ENCODINGS)
    op['conv'] = rng.choice(['int', 'int', 'lookup', 'fraction'])
    if op['nodekind'] == 'int' and rng.random() < 0.2:
        op['nodetype_str'] = True                 # the same digit labels, this time read as strings
    x = rng.random()
    if x < 0.15 or (0.4 <= x < 0.46):             # the upper band: a conversion failure in a keys=True read
        op['bad_row'] = rng.randrange(len(rows))
        op['bad_field'] = rng.choice(['node', 'node2', 'time', 'end', 'end'] if op['nodekind'] == 'int' and not op.get('nodetype_str') else ['time', 'end'])
    if 0.15 <= x < 0.46:
        op['keys'] = True
        op['via'] = 'read'
        if nonascii:
            op['encoding'] = 'utf-8'
    return op


def gen_compact(rng, cfg):
    base = rng.choice([0, -50, 10 ** 9])
    vals = {base + rng.randint(-20, 40) * rng.choice([1, 1, 7]) for _ in range(rng.randint(0, 12))}
    vals = sorted(vals)
    rng.shuffle(vals)
    return {'op': 'compact', 'values': vals}   # finite *sets* of timestamps (the statement's domain)


# ------------------------------------------------------------------ path / DAG probes
def gen_probe_window(rng, m):
    ids = m.instants()
    if not ids:
        return None, None
    x = rng.random()
    if x < 0.1:
        return None, None
    i = rng.randrange(len(ids))
    j = min(len(ids) - 1, i + rng.randint(0, 4))
    start, end = ids[i], ids[j]
    y = rng.random()
    if y < 0.15:
        end = None if j == len(ids) - 1 or rng.random() < 0.3 else end
    elif y < 0.25:
        start = None if i == 0 else start
    elif y < 0.33:            # invalid windows
        start, end = rng.choice([(ids[0] - 1, end), (start, ids[-1] + 1), (end + 1, end), (ids[-1] + 1, ids[-1] + 2)])
    elif y < 0.45 and i > 0:
        start = start - 1 if start - 1 not in ids and start - 1 >= ids[0] else start   # start between two ids
    elif y < 0.6 and end is not None and end + 1 not in ids and end + 1 < ids[-1]:
        end = end + rng.randint(1, max(1, min(3, ids[-1] - end - 1)))                   # end inside a gap between ids
        if end in ids or end >= ids[-1]:
            end = ids[j]
    return start, end


def gen_probe(rng, rep, cfg, kind):
    m = rep.m
    nodes = list(m.nodes) or cfg['nodes']
    start, end = gen_probe_window(rng, m)
    if kind == 'probe_all':
        ids = m.instants()
        return {'op': 'probe_all', 'start': start, 'end': end,
                'min_t': (rng.choice([None] + ids) if rng.random() < 0.7 else rng.randint(ids[0] - 1, ids[-1] + 1))
                if ids else None}        # also instants inside gaps / outside the observed period
    u = rng.choice(nodes)
    v = rng.choice([None, None, u] + nodes)
    op = {'op': kind, 'u': u, 'v': v, 'start': start, 'end': end}
    if kind == 'probe_paths' and rng.random() < 0.35:
        op['sample'] = rng.choice([0.0, 0.3, 0.5, 0.9])
        op['stub'] = rng.choice(['first', 'last', 'random'])
        op['stub_seed'] = rng.randint(0, 10 ** 6)
    return op


def gen_probe_conf(rng, rep, cfg):
    ids = rep.m.instants()
    if not ids:
        return None
    last = getattr(rep, 'last_conf', None)
    if last is not None and rng.random() < 0.4:
        return dict(last)           # the same query again on the same object after further history (stale caches)
    start = rng.choice(ids + [ids[0] - 1, ids[-1] + 1])
    x = rng.random()
    labels = rng.choice([['x'], ['x'], [0], ['']]) if x < 0.55 else \
        rng.choice([['x', 'y'], ['x', 'y', 'x'], ['x', 'y', 'z'], ['y', 'x', 'x', 'x'], [0, 1], [1, 0, 0], ['', 'y']])
    rep.last_conf = {'op': 'probe_conf', 'start': start, 'delta': rng.randint(0, 4),
            'alphas': rng.choice([[1], [2], [0.5, 1], [1, 3]]), 'labels': labels,
            'path_type': rng.choice(['shortest', 'fastest', 'foremost', 'fastest_shortest', 'shortest_fastest']),
            'sliding': rng.random() < 0.3}
    return dict(rep.last_conf)
