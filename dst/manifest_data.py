"""What MANIFEST.json claims (kept next to the code so that it cannot drift)."""
NOTES = ("Deterministic simulation with fault injection for a sequential in-memory library: see DESIGN.md. "
         "Exit 0 = property held on everything explored (KNOWN-FINDING lines possible), 1 = VIOLATION with a "
         "minimised replay file, 2 = harness error.")

NOTE_BASE = ("Trusted: the set-based reference model and the reading of the statement in DESIGN.md Appendix A; "
             "CPython/networkx/stdlib run for real and are not under test; sampling of histories up to 6 nodes, "
             "~16 instants, 40 operations per run - a clean batch is evidence, not proof.")


def claim(level, ref, technique, text, note=''):
    return dict(level=level, ref=ref, technique=technique, text=text, note=(note + ' ' + NOTE_BASE).strip())


CLAIMS = {
    'C01': claim('exploration', 'DESIGN.md 7/C01',
                 'deterministic simulation: seeded class-directed call histories vs set model, checked after every step',
                 'After every step of a seeded history (both classes, all call spellings and bulk helpers, rejected '
                 'calls interleaved) has_interaction is compared with the union-of-spans model for every node pair '
                 '(unknown nodes included) and every instant in [min-2,max+2]; every call must end in exactly the '
                 'outcome class the documented rule gives. Second-schedule runs check that interleaving of '
                 'independent clients does not change the final presence.'),
    'C02': claim('exploration', 'DESIGN.md 7/C02',
                 'deterministic simulation: observer sweep of ~45 query entry points after every step and over all instants at the end of each history',
                 'Read-only observer riding on simulated histories (both classes, both modes, after rejected calls, on '
                 'slices and conversions): every listed method and dn.* helper, for t omitted and every instant in '
                 '[min-2,max+2], with nbunch None / single / subset / unknown members, is compared with the static '
                 'graph the model gives at t. The simulator contributes reachable states and replay, not a fault '
                 'dimension of its own. Four open findings (D06 D07 D08 D09, each pinned by an existing test) exempt '
                 'narrowly described answers; exemption counts are in the evidence.'),
    'C03': claim('exploration', 'DESIGN.md 7/C03',
                 'deterministic simulation: timeline invariant after every step on root and derived replicas',
                 'The timelines exposed by the interaction views are compared with the model run list after every '
                 'step (canonical form, union = presence, both directions equal), on roots and on every graph the '
                 'library derives (slices, conversions, readers, node_link_graph) which then keeps being mutated.'),
    'C04': claim('exploration', 'DESIGN.md 7/C04',
                 'deterministic simulation: snapshot-index invariant after every step',
                 'temporal_snapshots_ids, interactions_per_snapshots (dict and per-t forms over [min-2,max+2]) and '
                 'avg_number_of_nodes are compared with the model after every step of seeded histories with spans, '
                 're-adds, overlaps and rejected calls.'),
    'C05': claim('exploration', 'DESIGN.md 7/C05',
                 'deterministic simulation: stream constraints checked over the event log after every step',
                 'After every step the stream must be chronological, repeat-free per pair, have a + exactly at run '
                 'starts, only legitimate - events, close every run longer than one instant and decode back to the '
                 'model presence. One open finding (D12a, pinned by existing tests) exempts the closure/decode '
                 'clauses for a pair while it has a point+point two-instant run.'),
    'C06': claim('exploration', 'DESIGN.md 7/C06',
                 'deterministic simulation: slices derived mid-history become live replicas; source observed before/after',
                 'time_slice (method and function, windows chosen by class relative to the runs, inverted windows, '
                 'slice of slice) is applied at seeded points of histories on both classes: the slice must have the '
                 'class, exactly presence-intersect-window for every pair and instant, exactly the surviving endpoints '
                 'with the source attributes; the complete observable state of the source must be unchanged; nested '
                 'slices must equal the slice by the intersection; the slice then lives on as a replica under the '
                 'C03/C04/C05 invariants while the history continues on it.'),
    'C09': claim('fault_enumeration', 'DESIGN.md 7/C09',
                 'deterministic simulation: restart through a simulated disk (SimFS) with enumerated write/read/close faults',
                 'At seeded points of a history the graph is persisted with write_snapshots to a simulated disk (plain, '
                 '.gz, .gzip, .bz2 paths, BytesIO, caller-opened handle, duck-typed object; drawn delimiter, encoding, '
                 'buffer size, short reads/writes), the bytes on disk at return must decode to exactly one row per '
                 'interaction and instant, library-opened handles must be closed and caller handles left open, the '
                 'object is dropped and rebuilt with read_snapshots from the durable bytes only, compared with the '
                 'model, and keeps being mutated under C03/C04/C05. For every successful restart the same history '
                 'is re-run with the k-th raw write failing (every k), the k-th raw read failing (every k) and the '
                 'close failing: a write fault may surface only as OSError and a call that returns must have left a '
                 'complete file; a read fault must raise, never return a graph built from a prefix. Four-column '
                 'rows u v t e are checked through generated row streams.'),
    'C10': claim('fault_enumeration', 'DESIGN.md 7/C10',
                 'deterministic simulation: restart through SimFS with enumerated I/O faults + generated event logs',
                 'As C09 for write_interactions/read_interactions: written rows must equal stream_interactions() in '
                 'order; the graph read back must have the same presence and the same stream; generated well-formed '
                 'event logs (several pairs interleaved chronologically, unclosed + allowed, noise) are fed to the '
                 'reader and compared with the log semantics. Open finding D20 (consequence of the pinned D12a): the '
                 'round-trip clauses are not asserted for graphs holding an unclosed two-instant run.'),
    'C11': claim('exploration', 'DESIGN.md 7/C11',
                 'deterministic simulation: JSON restart path on reached states (observer; no fault dimension)',
                 'node_link_data -> json.dumps -> simulated file -> json.loads -> node_link_graph at seeded points of '
                 'histories with attributed and isolated nodes, graph attributes, custom id key; data dict checked '
                 'field by field (directed flag, every node with attrs, one link per interaction and instant with '
                 'orientation), rebuilt class/nodes/attrs/presence compared with the model, the directed argument '
                 'exercised with and without the key, and the rebuilt graph lives on under C03/C04/C05. dynetx does '
                 'no I/O here: the simulator contributes reachable states and continuation, not faults.'),
    'C18': claim('fault_enumeration', 'DESIGN.md 7/C18',
                 'deterministic simulation: line-stream corruption between generated rows and the parsers; conversion failure enumerated per row',
                 'Generated valid row lists (both formats, both classes, delimiters) are corrupted with blank, '
                 'whitespace, comment, short, over-long rows, trailing comments and padding and parsed through '
                 'parse_* or read_* from the simulated disk: the graph must equal the one parsed from the clean rows '
                 '(complete observable state) and the model of those rows; a non-convertible node or timestamp at '
                 'every row index must raise TypeError; keys=True (second open of the same path by name) must give '
                 'the graph of the rank-substituted rows; compact_timeslot must be the rank bijection.'),
    'C12': claim('exploration', 'DESIGN.md 7/C12',
                 'deterministic simulation: path probes on reached states, every returned hop checked against the model; sampling PRNG scheduled by the simulator',
                 'Observer on states reached through simulated histories (rejections, slices included): every path '
                 'returned by time_respecting_paths (sample=1 and sample<1 with the index subset chosen by the '
                 'simulator: first-k, last-k, seeded-k, empty) and all_time_respecting_paths is checked clause by '
                 'clause against the model (first hop leaves u, chaining, strictly increasing times inside the '
                 'window, hop present, no immediate reversal, no idle intermediate node, reaches v), plus key/tuple/'
                 'duplicate structure. Only the sampling seam is a simulator-controlled nondeterminism; otherwise '
                 'the simulator contributes states and replay.'),
    'C13': claim('exploration', 'DESIGN.md 7/C13',
                 'deterministic simulation: path probes vs brute-force enumeration from the model; sampling PRNG replaced by a scheduled stub',
                 'With sample=1 and u present at an explicit start the returned path set must equal a brute-force '
                 'enumeration written directly from the statement; absent u gives the empty result; with sample<1 '
                 'every simulator-chosen index subset must give a subset of the full result; '
                 'all_time_respecting_paths must equal the per-source aggregation. Probes whose root carries a '
                 'self-loop inside the window are not asserted (the statement leaves that hop undefined).'),
    'C15': claim('exploration', 'DESIGN.md 7/C15',
                 'deterministic simulation: temporal-DAG probes on reached states (observer)',
                 'temporal_dag is probed for seeded (u, v, start, end) incl. windows ending before the last id, '
                 'windows between ids, invalid windows and empty graphs: acyclicity, every edge an interaction of the '
                 'model at a window instant with the right time order, sources exactly the occurrences of u with a '
                 'neighbour, targets occurrences of v inside the DAG, ValueError for invalid windows. No fault dimension.'),
    'C17': claim('exploration', 'DESIGN.md 7/C17',
                 'deterministic simulation: statistics probes on reached states vs exact rational recomputation (observer)',
                 'All listed measures are recomputed with fractions from the model (spans, several runs per pair, '
                 'nodes appearing and disappearing, states after rejections, slices and file restarts) and compared '
                 'to 1e-9 and to [0,1]; inter-event distributions are compared with the gap histogram of the actual '
                 'stream. No fault dimension.'),
    'C19': claim('fault_enumeration', 'DESIGN.md 7/C19',
                 'deterministic simulation with illegal-call faults: blocked mutators, every inherited networkx callable with synthesised arguments, frozen graphs; shadow replay',
                 'At seeded points of histories (both classes and modes) the simulator calls each blocked mutator/'
                 'view (must raise NetworkXNotImplemented, interactions/timelines/ids/stream untouched), every other '
                 'public callable or property inherited from the installed networkx (enumerated at run time) with '
                 'arguments synthesised from its signature (any outcome, but afterwards every adjacency entry has a '
                 'timeline and presence, ids, counts and stream agree with a model advanced only by legitimate node '
                 'additions / clear), and after freeze every networkx mutator (must raise, state unchanged). '
                 'Accepted operations alone are replayed at the end (shadow). Open finding D23 (pinned): dynetx own '
                 'mutators still work on frozen graphs.'),
    'C20': claim('exploration', 'DESIGN.md 7/C20',
                 'deterministic simulation: conformity probes on reached states + mirror replay of the same history under renaming (observer)',
                 'delta_conformity / sliding_delta_conformity are probed on labelled DynGraph states reached through '
                 'simulated histories for seeded (start, delta, alphas, path type): None iff the window holds no '
                 'snapshot, support = nodes present at start, scores in [-1,1], uniform labels give 1 exactly for '
                 'nodes whose brute-force path set reaches another node (0 otherwise), the sliding result equals '
                 'the per-t calls stamped t+delta, and the same call history replayed with renamed node ids and label '
                 'values gives equal scores. Pure function of (graph, parameters): no fault or PRNG dimension.'),
    'C16': claim('exploration', 'DESIGN.md 7/C16',
                 'deterministic simulation: conversions derived mid-history + aliasing interleaving (mutate one replica, observe the others)',
                 'to_directed / to_undirected(reciprocal or not) are applied at seeded points; presence of the result '
                 'is compared with union/intersection over directions for all pairs and instants, nodes and attributes '
                 'by value, the source must be observably unchanged, nested attribute values of either graph are then '
                 'mutated and every replica re-observed (isolation), and the result lives on under C03/C04/C05. '
                 'Open finding D16 (pinned): to_directed produces one orientation only; everything else about it is asserted.'),
    'C07': claim('fault_enumeration', 'DESIGN.md 7/C07',
                 'deterministic simulation with injected rejections (out-of-order, missing t, failing bulk element, failing iterable) + shadow replay',
                 'Rejected calls are injected at seeded points of histories in both classes and both modes; the full '
                 'public observable state must be identical before and after a rejected call, a failed bulk helper '
                 'must leave exactly the state of its accepted prefix (compared against a scratch copy fed one element '
                 'at a time), the failing index is enumerated over all positions, and at the end the accepted '
                 'operations alone replayed on fresh objects must give the same observable state.'),
    'C08': claim('exploration', 'DESIGN.md 7/C08',
                 'deterministic simulation: accumulative-mode invariant after every step, acceptance observed',
                 'On edge_removal=False graphs of both classes presence must equal first<=t<=last snapshot id for all '
                 'pairs and instants after every step, the stream must be exactly one + per pair at its first instant, '
                 'and the ids exactly the accepted instants.'),
}

NOT_APPLICABLE = {
    'C14': 'annotate_paths is a pure function of an argument list: no state, history, fault, I/O, PRNG or '
           'aliasing for a simulator to control (DESIGN.md section 8)',
}


RULES = {
    'C01': 'Histories of add_interaction / bulk helpers (all spellings) drawn by relative-position class of the new span to the pair\'s latest run (first, gap, adjacent, adjacent-to-point, overlap, same-start overlap, contained, duplicate, out-of-order), points and spans, either endpoint order, self-loops, reciprocal pairs, several pairs sharing instants, origins 0/-7/10^9, int or string ids; 30% of the runs execute commuting client programs under two schedules; slices/conversions create further live graphs and every graph is re-checked after every step.',
    'C02': 'The C01 histories on all four class/mode combinations plus slices and conversions; after every step the sweep runs for t omitted and the instants around the operation, at the end of the run for every instant in [min-2,max+2]; nbunch forms None / single / subset with unknown member / reversed subset / one-shot iterator.',
    'C03': 'The C01 histories; slices, conversions and the three file/JSON restarts create further live graphs (all constructors the statement lists); timelines of every graph are compared after every step; after a divergence from the model the model-free clauses continue.',
    'C04': 'The C01 histories incl. second schedules and derived graphs; ids, per-t counts over [min-2,max+2], dict form and the average after every step on every graph.',
    'C05': 'The C01 histories incl. second schedules and derived graphs; the whole stream is judged after every step on every graph; relational form (stream vs has_interaction) after a divergence.',
    'C06': 'Slices (method/function, t_to given/omitted/None, windows by class: inside a run, cutting head/tail/both, exact, touching end, after end, all, none, point, inverted) and nested slices at seeded points; every slice lives on under C03/C04/C05 while the history continues on it and on its source.',
    'C07': 'Histories on both classes and both modes in which 20-40% of the steps are rejected calls (out-of-order, missing t, bulk call with a failing element, iterable raising after k items); every failed bulk call is re-run with the failing element at every other position / the iterable failing after every other count; shadow replay at the end.',
    'C08': 'Accumulative roots of both classes, adds with and without vanishing time, re-adds, rejected calls, commuting client programs under two schedules; read-only queries are issued before every comparison.',
    'C09': 'Restart through write_snapshots/read_snapshots at seeded points (targets: plain/.gz/.gzip/.bz2 path, BytesIO, caller-opened handle, duck object; delimiters; encodings with non-ASCII ids; buffer sizes; short reads/writes; keys=True; occasionally >512 rows); every successful restart is re-run with each raw write failing, each raw read failing and the close failing; generated 3/4-column row files.',
    'C10': 'As C09 for write_interactions/read_interactions, plus generated well-formed event logs (several pairs interleaved, unclosed +, noise) read in both classes.',
    'C11': 'JSON restart at seeded points of histories with attributed/isolated nodes and graph attributes; custom id key; directed argument with/without the key, same parsed dict used twice.',
    'C12': 'Path probes (u, v incl. None and u itself, windows inside the id range incl. ends inside gaps and before the last id, sample<1 with scheduled index subsets) on small graphs reached through histories, slices and clear().',
    'C13': 'As C12; equality with a brute-force enumeration bounded to 6 ids / 2500 paths (larger probes skipped and counted).',
    'C15': 'temporal_dag probes incl. invalid windows, windows ending before the last id, empty graphs, roots with self-loops.',
    'C16': 'Conversions at seeded points (reciprocal or not, default argument) followed by nested-attribute mutations of either graph and further history on both.',
    'C17': 'Statistics probes on reached states (spans, multi-run timelines, out-of-order insertion of pairs, states after slices and file restarts).',
    'C18': 'Generated row lists of both formats corrupted with 11 noise kinds, 4 decorations and spelling variants, parsed directly or read from the simulated disk (plain/keys=True), converters int / lookup / Fraction; every parsed list is re-run with a non-convertible field at every row index; compact_timeslot on random sets.',
    'C19': 'Blocked mutators/views with synthesised positional and keyword arguments, every other inherited callable/property, freeze followed by every networkx mutator, interleaved with ordinary histories on all four class/mode combinations; shadow replay.',
    'C20': 'Conformity probes (start, delta, alphas, five path types, uniform / mixed / falsy labels, sliding) on small labelled DynGraphs reached through histories; mirror replay of the accepted history under renaming.',
}
