"""State oracles: compare one replica (real graph) with its model through the public API.

Every function raises core.Violation(oracle, sub, detail) on disagreement and returns the
number of elementary comparisons it made otherwise.
"""
from fractions import Fraction

from . import obs
from .core import Violation, call, exc_class
from .model import nkey

UNKNOWN = {int: 987654, str: 'zz9', tuple: (987, 654)}


def guards():
    from . import findings
    return findings.open_ids()


def poke_observers(g, lo, hi):
    """read-only queries at inhabited and uninhabited instants, issued before a comparison: whatever
    they answer, they must not change what the graph reports afterwards (observer purity)"""
    for t in (lo, (lo + hi) // 2, hi, hi + 3):
        call(g.interactions_per_snapshots, t)
        call(g.number_of_nodes, t)
        call(g.size, t)
        call(g.nodes, t)
    call(g.interactions_per_snapshots)
    call(g.temporal_snapshots_ids)


def window(m, extra=()):
    ids = list(m.instants()) + [x for x in extra if x is not None]
    if not ids:
        return 0, 0
    return min(ids) - 2, max(ids) + 2


def probe_nodes(rep):
    ns = list(rep.m.nodes)
    kind = type(ns[0]) if ns else int
    return ns + [UNKNOWN.get(kind, 987654)]


# ------------------------------------------------------------------ C01 presence
def presence_mismatch(rep, lo, hi, pairs=None):
    """first disagreement between has_interaction and the model, or None"""
    g, m = rep.g, rep.m
    ns = probe_nodes(rep)
    if pairs is None:
        pairs = [(u, v) for i, u in enumerate(ns) for v in (ns if m.directed else ns[i:])]
        if not m.directed:
            pairs += [(v, u) for u, v in pairs if u != v]
    n = 0
    for u, v in pairs:
        st, r = call(g.has_interaction, u, v)
        if st != 'ok':
            return ('raises', (u, v, None), exc_class(r))
        if bool(r) != m.ever(u, v):
            return ('ever', (u, v, None), {'impl': bool(r), 'model': m.ever(u, v)})
        for t in range(lo, hi + 1):
            st, r = call(g.has_interaction, u, v, t)
            n += 1
            if st != 'ok':
                return ('raises', (u, v, t), exc_class(r))
            if bool(r) != m.present(u, v, t):
                return ('at-t', (u, v, t), {'impl': bool(r), 'model': m.present(u, v, t)})
    rep._n = n
    return None


def observed_presence(rep, lo, hi):
    """key -> set of instants in [lo, hi] at which has_interaction answers True (public API only)"""
    g, m = rep.g, rep.m
    ns = list(g.nodes())
    out = {}
    for i, u in enumerate(ns):
        for v in (ns if m.directed else ns[i:]):
            if not g.has_interaction(u, v):
                continue
            out[m.key(u, v)] = {t for t in range(lo, hi + 1) if g.has_interaction(u, v, t)}
    return out


def c01(rep, lo, hi, pairs=None):
    bad = presence_mismatch(rep, lo, hi, pairs)
    if bad:
        raise Violation('C01.presence', bad[0], {'query': bad[1], 'got': bad[2]})
    return getattr(rep, '_n', 1)


# ------------------------------------------------------------------ C03 timelines
def c03(rep):
    g, m = rep.g, rep.m
    st, r = call(obs.timelines, g)
    if st != 'ok':
        raise Violation('C03.timelines', 'raises', exc_class(r))
    tls, problems = r
    if problems:
        raise Violation('C03.timelines', 'views-disagree', repr(problems[:3]))
    exp = {k: tuple(map(tuple, m.runs(k))) for k in m.pres}
    if tls != exp:
        for k in set(tls) | set(exp):
            if tls.get(k) != exp.get(k):
                kind = 'noncanonical'
                got = tls.get(k)
                if got is not None:
                    cov = set()
                    for a, b in got:
                        cov |= set(range(a, b + 1))
                    canonical = all(a <= b for a, b in got) and all(
                        got[i][1] + 1 < got[i + 1][0] for i in range(len(got) - 1))
                    if canonical:
                        kind = 'union!=presence'
                else:
                    kind = 'missing'
                raise Violation('C03.timelines', kind,
                                {'pair': sorted(map(repr, k)) if not m.directed else list(map(repr, k)),
                                 'impl': got, 'model': exp.get(k)})
    return len(exp) + 1


def c03_intrinsic(rep, lo, hi):
    """the clauses of C03 that need no model: canonical form, union == the presence the graph itself
    reports through has_interaction, both directions equal (used once a run has diverged from the
    model because of a C01-level defect, so that C03 is still judged on its own terms)"""
    g = rep.g if hasattr(rep, 'g') else rep
    st, r = call(obs.timelines, g)
    if st != 'ok':
        raise Violation('C03.timelines', 'raises', exc_class(r))
    tls, problems = r
    if problems:
        raise Violation('C03.timelines', 'views-disagree', repr(problems[:3]))
    for k, tl in tls.items():
        name = sorted(map(repr, k)) if isinstance(k, frozenset) else list(map(repr, k))
        if not (all(a <= b for a, b in tl) and all(tl[i][1] + 1 < tl[i + 1][0] for i in range(len(tl) - 1))):
            raise Violation('C03.timelines', 'noncanonical', {'pair': name, 'impl': tl, 'model': None})
        u, v = (tuple(k) * 2)[:2] if isinstance(k, frozenset) else k
        cov = set()
        for a, b in tl:
            cov |= set(range(a, b + 1))
        lo2, hi2 = (min(cov | {lo}) - 1, max(cov | {hi}) + 1)
        seen = {t for t in range(lo2, hi2 + 1) if g.has_interaction(u, v, t)}
        if seen != cov:
            raise Violation('C03.timelines', 'union!=presence', {'pair': name, 'impl': tl, 'has_interaction': sorted(seen)})
    return len(tls) + 1


# ------------------------------------------------------------------ C04 ids and counts
def c04(rep, lo, hi, counts=True):
    g, m = rep.g, rep.m
    ids = m.instants()
    st, r = call(g.temporal_snapshots_ids)
    if st != 'ok':
        raise Violation('C04.ids', 'raises', exc_class(r))
    if list(r) != ids:
        raise Violation('C04.ids', 'ids', {'impl': list(r), 'model': ids})
    n = 1
    if counts:
        st, r = call(g.interactions_per_snapshots)
        if st != 'ok':
            raise Violation('C04.counts', 'raises', exc_class(r))
        exp = {t: m.count_at(t) for t in ids}
        if dict(r) != exp:
            raise Violation('C04.counts', 'dict', {'impl': dict(r), 'model': exp})
        for t in range(lo, hi + 1):
            st, r = call(g.interactions_per_snapshots, t)
            n += 1
            if st != 'ok' or r != m.count_at(t):
                raise Violation('C04.counts', 'at-t', {'t': t, 'impl': repr(r), 'model': m.count_at(t)})
    st, r = call(g.temporal_snapshots_ids)
    if st != 'ok' or list(r) != ids:
        raise Violation('C04.ids', 'ids-changed-by-a-query', {'impl': repr(r), 'model': ids})
    import dynetx as dn
    st, r = call(dn.temporal_snapshots_ids, g)
    if st != 'ok' or list(r) != ids:
        raise Violation('C04.ids', 'dn.temporal_snapshots_ids', {'impl': repr(r), 'model': ids})
    if counts:
        st, r = call(dn.interactions_per_snapshots, g)
        if st != 'ok' or dict(r) != {t: m.count_at(t) for t in ids}:
            raise Violation('C04.counts', 'dn.interactions_per_snapshots', {'impl': repr(r)})
        for t in (lo, ids[0] if ids else lo, hi):
            st, r = call(dn.interactions_per_snapshots, g, t)
            if st != 'ok' or r != m.count_at(t):
                raise Violation('C04.counts', 'dn.interactions_per_snapshots(t)', {'t': t, 'impl': repr(r), 'model': m.count_at(t)})
    if ids:
        st, r = call(g.avg_number_of_nodes)
        exp = m.avg_nodes()
        if st != 'ok' or abs(Fraction(r) - exp) > Fraction(1, 10 ** 9):
            raise Violation('C04.avg', 'avg_number_of_nodes', {'impl': repr(r), 'model': str(exp)})
        n += 1
    return n


# ------------------------------------------------------------------ C05 stream
def c05(rep, pres=None):
    """pres: presence relation to compare with (default: the model's).  Passing the relation the
    graph itself reports through has_interaction makes the oracle purely relational, which is what
    the statement is (used once a run has diverged from the model)"""
    g, m = rep.g, rep.m
    P = m.pres if pres is None else pres
    st, r = call(lambda: [tuple(e) for e in g.stream_interactions()])
    if st != 'ok':
        raise Violation('C05.stream', 'raises', exc_class(r))
    s = r
    import dynetx as dn
    st, r2 = call(lambda: [tuple(e) for e in dn.stream_interactions(g)])
    if st != 'ok' or r2 != s:
        raise Violation('C05.stream', 'dn.stream_interactions-differs', {'method': repr(s)[:300], 'function': repr(r2)[:300]})
    for e in s:
        if len(e) != 4 or e[2] not in ('+', '-'):
            raise Violation('C05.stream', 'shape', repr(e))
    ts = [e[3] for e in s]
    if any(ts[i] > ts[i + 1] for i in range(len(ts) - 1)):
        raise Violation('C05.stream', 'not-chronological', repr(s))
    per = {}
    for u, v, op, t in s:
        per.setdefault(m.key(u, v), []).append((op, t))
    n = 1
    for k, ev in per.items():
        if k not in P:
            raise Violation('C05.stream', 'event-of-unknown-pair', repr(ev))
    for k in P:
        ev = per.get(k, [])
        runs = m.runs_of(P[k])
        exempt = m.unclosed2.get(k, ())
        name = sorted(map(repr, k)) if not m.directed else list(map(repr, k))
        n += 1
        if len(set(ev)) != len(ev):
            raise Violation('C05.stream', 'repeated-event', {'pair': name, 'events': ev})
        plus = sorted(t for op, t in ev if op == '+')
        minus = sorted(t for op, t in ev if op == '-')
        starts = [a for a, b in runs]
        if plus != starts:
            raise Violation('C05.stream', 'plus!=run-starts', {'pair': name, 'plus': plus, 'runs': runs,
                                                               'events': ev})
        ends1 = {b + 1 for a, b in runs}
        for t in minus:
            if t not in ends1:
                raise Violation('C05.stream', 'stale-minus', {'pair': name, 'minus': t, 'runs': runs,
                                                              'events': ev})
        for a, b in runs:
            if b > a and b + 1 not in minus:
                if a in exempt and 'D12a' in guards():
                    rep.guard_hit = 'D12a'
                    continue
                raise Violation('C05.stream', 'unclosed-run', {'pair': name, 'run': [a, b], 'events': ev})
        if not (exempt and 'D12a' in guards()):
            # constructive form: replay the events
            pres, open_at = set(), None
            for op, t in sorted(ev, key=lambda x: (x[1], x[0] == '+')):
                if op == '+':
                    if open_at is not None:
                        pres.add(open_at)
                    open_at = t
                else:
                    if open_at is not None:
                        pres |= set(range(open_at, t))
                        open_at = None
            if open_at is not None:
                pres.add(open_at)
            if pres != P[k]:
                raise Violation('C05.stream', 'decode!=presence', {'pair': name, 'decoded': sorted(pres),
                                                                   'model': sorted(P[k]), 'events': ev})
    return n


# ------------------------------------------------------------------ C08 accumulative mode
def c08(rep, lo, hi):
    g, m = rep.g, rep.m
    # read-only queries first: whatever they answer, they must not move the snapshot index (the
    # upper end of every accumulative presence) - so they are asked before presence is compared
    poke_observers(g, lo, hi)
    n = c01(rep, lo, hi)
    st, r = call(g.temporal_snapshots_ids)
    if st != 'ok' or list(r) != m.instants():
        raise Violation('C08.ids', 'ids', {'impl': repr(r), 'model': m.instants()})
    st, r = call(lambda: [tuple(e) for e in g.stream_interactions()])
    if st != 'ok':
        raise Violation('C08.stream', 'raises', exc_class(r))
    got = sorted(((obs.kcanon(m.directed, m.key(u, v)), op, t) for u, v, op, t in r))
    exp = sorted(((obs.kcanon(m.directed, k), '+', f) for k, f in m.first.items()))
    if got != exp:
        raise Violation('C08.stream', 'stream', {'impl': got, 'model': exp})
    ts = [e[3] for e in r]
    if any(ts[i] > ts[i + 1] for i in range(len(ts) - 1)):
        raise Violation('C08.stream', 'not-chronological', repr(r))
    return n + 2
