"""C19: untimed networkx mutators are blocked; no call through the inherited networkx API can
leave the graph inconsistent; frozen graphs are immutable."""
import inspect

import dynetx as dn
import networkx as nx

from . import obs, oracles
from .core import Abort, Violation, call, exc_class

BLOCKED_U = ['add_edge', 'add_edges_from', 'add_weighted_edges_from', 'update', 'remove_edge', 'remove_edges_from',
             'remove_node', 'remove_nodes_from', 'edges_iter']
BLOCKED_D = BLOCKED_U + ['in_edges', 'out_edges', 'in_edges_iter', 'out_edges_iter']
BLOCKED_FUNCS = ['dn.set_edge_attributes', 'dn.get_edge_attributes']
# every mutator of the inherited networkx API (not the list dynetx.freeze happens to replace)
FROZEN_MUTATORS = ['add_node', 'add_nodes_from', 'remove_node', 'remove_nodes_from', 'add_edge', 'add_edges_from',
                   'add_weighted_edges_from', 'remove_edge', 'remove_edges_from', 'clear', 'clear_edges', 'update']
SKIP = {'adjlist_inner_dict_factory', 'adjlist_outer_dict_factory', 'edge_attr_dict_factory',
        'graph_attr_dict_factory', 'node_attr_dict_factory', 'node_dict_factory'}
NAMED = ('presence', 'ever', 'timelines', 'tl_problems', 'ids', 'stream', 'counts')


def inherited_callables(directed):
    """public callables the class inherits from networkx without overriding them
    (enumerated from the installed networkx at run time: the `programs` quantifier)"""
    cls, base = (dn.DynDiGraph, nx.DiGraph) if directed else (dn.DynGraph, nx.Graph)
    out = []
    for n in dir(base):
        if n.startswith('_') or n in SKIP or n in cls.__dict__:
            continue
        a = inspect.getattr_static(base, n)
        if isinstance(a, property) or 'cached_property' in type(a).__name__:
            continue
        if callable(getattr(base, n)):
            out.append(n)
    return sorted(out)


def inherited_properties(directed):
    cls, base = (dn.DynDiGraph, nx.DiGraph) if directed else (dn.DynGraph, nx.Graph)
    out = []
    for n in dir(base):
        if n.startswith('_') or n in cls.__dict__:
            continue
        a = inspect.getattr_static(base, n)
        if isinstance(a, property) or 'cached_property' in type(a).__name__:
            out.append(n)
    return sorted(out)


def materialise(x):
    """JSON-encoded argument -> Python value"""
    if isinstance(x, dict) and '__graph__' in x:
        h = nx.DiGraph() if x.get('directed') else nx.Graph()
        h.add_nodes_from(materialise(n) for n in x.get('nodes', []))
        h.add_edges_from([tuple(materialise(y) for y in e) for e in x['__graph__']])
        return h
    if isinstance(x, dict) and '__edges__' in x:
        es = [tuple(materialise(y) for y in e) for e in x['__edges__']]
        return tuple(es) if x.get('as_tuple') else es
    if isinstance(x, dict) and '__tuple__' in x:
        return tuple(materialise(y) for y in x['__tuple__'])
    if isinstance(x, list):
        return [materialise(y) for y in x]
    return x


def enc(n):
    """node id -> JSON-able argument (tuple ids survive the replay file)"""
    return {'__tuple__': [enc(y) for y in n]} if isinstance(n, tuple) else n


def subset(o):
    return {k: o[k] for k in NAMED if k in o}


def adjacency_has_timelines(g):
    for u, nbrs in g.adj.items():
        for v, d in nbrs.items():
            if 't' not in d:
                return (u, v)
    return None


def inconsistency(rep, lo, hi):
    """first disagreement between presence (model == has_interaction, checked by the caller's
    precondition) and timelines / snapshot ids and counts / stream, or None"""
    m = rep.m
    try:
        if oracles.presence_mismatch(rep, lo, hi):
            return Violation('C01.presence', 'mismatch')
        if m.removal:
            oracles.c03(rep)
            oracles.c04(rep, lo, hi)
            oracles.c05(rep)
        elif m.keys():
            oracles.c08(rep, lo, hi)
    except Violation as v:
        return v
    return None


def do_nx(world, rep, op):
    g, m = rep.g, rep.m
    name = op['name']
    if op['mode'] == 'frozen' and not m.frozen:
        return {'out': 'skipped', 'fault': False, 'cls': 'skip', 'keys': []}
    args = [materialise(a) for a in op.get('args', [])]
    kwargs = {k: materialise(v) for k, v in (op.get('kwargs') or {}).items()}
    lo, hi = oracles.window(m)
    # outside the C19 focus a clear() is only a way to wipe the graph in the middle of a history: no
    # observation is made around it (reads refresh caches and would mask stale ones)
    light = op['mode'] == 'any' and world.focus != 'C19'
    pre = None if light else obs.full(g, lo, hi)
    judge = op['mode'] == 'any' and world.focus == 'C19'     # elsewhere the focus' own oracles judge the state
    pre_bad = inconsistency(rep, lo, hi) if judge else None
    if name.startswith('dn.'):
        fn = getattr(dn, name[3:])
        if op.get('pass_graph', True):
            args = [g] + args
    elif op.get('prop'):
        fn = lambda: getattr(g, name)           # noqa: E731  (property access through the instance)
    else:
        fn = getattr(g, name, None)
        if fn is None:
            return {'out': 'skipped', 'fault': False, 'cls': 'skip', 'keys': []}
    st, r = call(fn, *args, **kwargs)
    if st == 'ok' and op.get('consume'):
        st, r = call(lambda: list(r) if hasattr(r, '__iter__') else r)
    out = 'ok' if st == 'ok' else exc_class(r)
    post = None if light else obs.full(g, lo, hi)
    world.evals += 1
    mode = op['mode']
    if mode == 'blocked' and m.frozen and not name.startswith('dn.') and 'edges_iter' not in name and name not in ('in_edges', 'out_edges'):
        mode = 'frozen'      # on a frozen graph the statement only demands "raises, unchanged"
    if mode == 'blocked':
        world.count('fault.F-NX.' + name)
        if out != 'NetworkXNotImplemented':
            raise Violation('C19.blocked', 'not-NetworkXNotImplemented', {'op': op, 'got': out})
        d = obs.diff(subset(pre), subset(post))
        if d:
            raise Violation('C19.blocked', 'state-changed:' + ','.join(d), {'op': op, 'before': {k: pre[k] for k in d},
                                                                          'after': {k: post[k] for k in d}})
        # nodes may legitimately have been added (update(edges=..., nodes=...)): follow them
        for n, a in g.nodes(data=True):
            if n not in m.nodes:
                m.add_node(n, a)
        return {'out': out, 'fault': True, 'cls': 'nx-blocked', 'keys': []}
    if mode == 'frozen':
        world.count('fault.F-FROZEN.' + name)
        if out == 'ok':
            raise Violation('C19.frozen', 'mutator-did-not-raise', {'op': op})
        d = obs.diff(pre, post)
        if d:
            raise Violation('C19.frozen', 'state-changed:' + ','.join(d), {'op': op})
        return {'out': out, 'fault': True, 'cls': 'nx-frozen', 'keys': []}
    # mode == 'any': whatever it returns or raises; the model follows only the legitimate effects
    world.count('fault.F-NXANY.' + name)
    if out == 'ok':
        if name == 'add_node':
            m.add_node(args[0], kwargs)
        elif name == 'add_nodes_from':
            for n in args[0]:
                try:                       # networkx's own rule: anything hashable is a node id
                    hash(n)
                    pair = False
                except TypeError:
                    pair = True
                if pair:
                    m.add_node(n[0], dict(kwargs, **n[1]))
                else:
                    m.add_node(n, kwargs)
        elif name == 'update' and kwargs.get('nodes') is not None and kwargs.get('edges') is None:
            for n in kwargs['nodes']:
                m.add_node(n, {})
        elif name == 'clear':
            m.clear(nodes_too=True)
        elif name == 'clear_edges':
            m.clear(nodes_too=False)
    elif name in ('clear', 'clear_edges') and not light:
        d = obs.diff(pre, post)
        if d:
            raise Violation('C19.any', 'rejected-clear-changed-state:' + ','.join(d), {'op': op})
    if light:
        return {'out': out, 'fault': out != 'ok', 'cls': 'nx-any', 'keys': []}
    bad = adjacency_has_timelines(g)
    if bad:
        raise Violation('C19.any', 'adjacency-entry-without-timeline', {'op': op, 'pair': repr(bad)})
    # "...or the stream out of step with presence": timelines, snapshot index and stream must still agree
    # with the presence relation after the call - judged only if they did before it
    if judge and pre_bad is None:
        lo2, hi2 = oracles.window(m)
        post_bad = inconsistency(rep, lo2, hi2)
        if post_bad:
            raise Violation('C19.any', 'left-inconsistent:%s/%s' % (post_bad.oracle, post_bad.sub),
                            {'op': op, 'detail': post_bad.detail})
        world.evals += 1
    # nodes / attrs must follow the model (only legitimate node additions happened)
    from .ops import attrs_mismatch
    am = attrs_mismatch(g, m) if not rep.shared_attrs else None
    if am:
        raise Violation('C19.any', 'nodes-or-attrs', dict(am, op=op))
    return {'out': out, 'fault': out != 'ok', 'cls': 'nx-any', 'keys': []}


def do_freeze(world, rep, op):
    g, m = rep.g, rep.m
    st, r = call(dn.freeze, g)
    if st != 'ok':
        raise Violation('C19.freeze', 'raises', {'exc': exc_class(r)})
    st, r = call(dn.is_frozen, g)
    if st != 'ok' or r is not True:
        raise Violation('C19.freeze', 'is_frozen-false', {'got': repr(r)})
    m.frozen = True
    world.count('freeze')
    world.evals += 1
    return {'out': 'ok', 'fault': False, 'cls': 'freeze', 'keys': []}


# ------------------------------------------------------------------ generation
def synth(rng, pname, m, cfg):
    nodes = list(m.nodes) or cfg['nodes']
    pool = cfg['nodes']
    ks = [m.pair(k) for k in m.keys()]

    def node():
        return enc(rng.choice(nodes if rng.random() < 0.7 else pool))

    def edge(data=False):
        e = [enc(x) for x in rng.choice(ks)] if ks and rng.random() < 0.6 else [node(), node()]
        if data:
            e.append({'w': 1})
        return e
    p = pname.lower()
    if p in ('n', 'u', 'v', 'u_of_edge', 'v_of_edge', 'node_for_adding'):
        return node()
    if p in ('nbunch', 'nodes', 'nodes_for_adding'):
        b = [node() for _ in range(rng.randint(0, 3))]
        return {'__tuple__': b} if rng.random() < 0.3 else b          # a bunch may be any container
    if p in ('ebunch', 'ebunch_to_add', 'edges'):
        x = rng.random()
        if p == 'edges' and x < 0.3:
            return {'__graph__': [edge() for _ in range(rng.randint(0, 2))], 'nodes': [node()]}
        if p == 'ebunch_to_add' and x < 0.3:
            return {'__edges__': [edge() + [1.5] for _ in range(rng.randint(1, 2))]}
        return {'__edges__': [edge(data=rng.random() < 0.3) for _ in range(rng.randint(0, 3))],
                'as_tuple': rng.random() < 0.3}
    if p in ('as_view', 'copy', 'reciprocal', 'data'):
        return rng.random() < 0.5
    if p in ('weight', 'default', 'name'):
        return rng.choice([None, 'weight'])
    return None


def gen_nx(rng, rep, cfg, mode):
    m = rep.m
    if mode == 'blocked':
        name = rng.choice((BLOCKED_D if m.directed else BLOCKED_U) + BLOCKED_FUNCS)
        if name.startswith('dn.'):
            op = {'op': 'nx', 'mode': mode, 'name': name, 'args': [rng.choice([3, 'w', {'a': 1}]), 'w'][:rng.randint(1, 2)],
                  'pass_graph': name == 'dn.get_edge_attributes'}
            if name == 'dn.get_edge_attributes':
                op['args'] = ['w']
            return op
        cls = dn.DynDiGraph if m.directed else dn.DynGraph
        try:
            params = [p for p in inspect.signature(getattr(cls, name)).parameters.values()][1:]
        except (TypeError, ValueError):
            params = []
        args = []
        for p in params:
            if p.kind in (p.VAR_KEYWORD, p.VAR_POSITIONAL):
                continue
            if p.default is not p.empty and rng.random() < 0.5 and name != 'update':
                break
            args.append(synth(rng, p.name, m, cfg))
        op = {'op': 'nx', 'mode': mode, 'name': name, 'args': args, 'consume': True}
        if name in ('add_edge', 'add_edges_from', 'add_weighted_edges_from') and rng.random() < 0.5:
            # attribute keywords, including ones that look like a timestamp
            o = cfg['origin']
            op['kwargs'] = dict(rng.choice([{'t': o + 2}, {'t': o + 1, 'e': o + 4}, {'weight': 2}, {'t': [o, o + 1]},
                                            {'attr_dict': {'t': o}}]))
            need = 2 if name == 'add_edge' else 1
            if 'attr_dict' in op['kwargs'] and len(args) > need:
                op['kwargs'].pop('attr_dict')
            if name == 'add_weighted_edges_from':
                op['kwargs'].pop('attr_dict', None)
                op['kwargs'].pop('weight', None)
        if name == 'update':
            op['args'] = []
            op['kwargs'] = {'edges': synth(rng, 'edges', m, cfg)}
            if rng.random() < 0.5:
                op['kwargs']['nodes'] = synth(rng, 'nodes', m, cfg)
        if name == 'add_weighted_edges_from':
            op['args'] = [{'__edges__': [[enc(rng.choice(cfg['nodes'])), enc(rng.choice(cfg['nodes'])), 1.5]]}]
        return op
    if mode == 'frozen':
        name = rng.choice(FROZEN_MUTATORS)
        base = nx.DiGraph if m.directed else nx.Graph
        params = [p for p in inspect.signature(getattr(base, name)).parameters.values()][1:]
        args = [synth(rng, p.name, m, cfg) for p in params if p.kind not in (p.VAR_KEYWORD, p.VAR_POSITIONAL)
                and p.default is p.empty]
        op = {'op': 'nx', 'mode': mode, 'name': name, 'args': args}
        if name == 'update':
            op['kwargs'] = {'nodes': [enc(rng.choice(cfg['nodes']))]} if rng.random() < 0.5 else \
                {'edges': {'__edges__': [[enc(rng.choice(cfg['nodes'])), enc(rng.choice(cfg['nodes']))]]}}
        return op
    # any other inherited callable or property
    if rng.random() < 0.12:
        return {'op': 'nx', 'mode': 'any', 'name': rng.choice(inherited_properties(m.directed)), 'prop': True,
                'consume': True}
    names = inherited_callables(m.directed)
    name = rng.choice(names + ['clear', 'clear_edges', 'add_node', 'add_nodes_from', 'update'])
    base = nx.DiGraph if m.directed else nx.Graph
    try:
        params = [p for p in inspect.signature(getattr(base, name)).parameters.values()][1:]
    except (TypeError, ValueError):
        params = []
    args, kwargs = [], {}
    for p in params:
        if p.kind == p.VAR_KEYWORD:
            if name in ('add_node', 'add_nodes_from') and rng.random() < 0.5:
                kwargs = dict(rng.choice([{'Label': 'Z'}, {'w': 2}]))
            continue
        if p.kind == p.VAR_POSITIONAL:
            continue
        if p.default is not p.empty and rng.random() < 0.5:
            break
        args.append(synth(rng, p.name, m, cfg))
    op = {'op': 'nx', 'mode': 'any', 'name': name, 'args': args, 'kwargs': kwargs, 'consume': True}
    if name == 'update':
        op['args'] = []
        op['kwargs'] = {'nodes': synth(rng, 'nodes', m, cfg)}
        if rng.random() < 0.3:
            op['kwargs']['edges'] = None
    if name in ('clear', 'clear_edges') and rng.random() < 0.5:
        return None          # keep most histories alive
    return op
