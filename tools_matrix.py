#!/venv/bin/python
"""Cross matrix: every registered check (reduced budget) against every seeded change, each in a
scratch checkout (VERIF_REPO).  Shows which other checks also report a change (cross-attribution)
and that none ends as a harness error.  usage: tools_matrix.py [--runs N] [--jobs J] [id ...]"""
import glob, json, os, subprocess, sys, tempfile, shutil
ROOT = os.path.dirname(os.path.abspath(__file__))


def sh(cmd, cwd=None, timeout=3000):
    p = subprocess.run(cmd, shell=True, cwd=cwd, capture_output=True, text=True, timeout=timeout)
    return p.returncode, p.stdout + p.stderr


def main():
    args = sys.argv[1:]
    runs, jobs = 2500, 8
    while args and args[0].startswith('--'):
        if args[0] == '--runs':
            runs = int(args[1])
        if args[0] == '--jobs':
            jobs = int(args[1])
        args = args[2:]
    ids = args or sorted(os.path.basename(d) for d in glob.glob(os.path.join(ROOT, 'seeded', '*')) if os.path.isdir(d))
    props = [c['property_id'] for c in json.load(open(os.path.join(ROOT, 'MANIFEST.json')))['checks']]
    outp = os.path.join(ROOT, 'seeded', 'MATRIX.json')
    matrix = json.load(open(outp)) if os.path.exists(outp) else {}
    for mid in ids:
        wt = tempfile.mkdtemp(prefix='mx-'); os.rmdir(wt)
        row = {}
        try:
            rc, o = sh('git -C /repo worktree add -q --detach %s HEAD && git -C %s apply %s' % (
                wt, wt, os.path.join(ROOT, 'seeded', mid, 'patch.diff')))
            assert rc == 0, o
            for p in props:
                rc, o = sh('VERIF_REPO=%s ./check %s --runs %d --jobs %d --no-min' % (wt, p, runs, jobs), cwd=ROOT)
                row[p] = rc
        finally:
            sh('git -C /repo worktree remove --force %s' % wt)
            shutil.rmtree(wt, ignore_errors=True)
        matrix[mid] = row
        json.dump(matrix, open(outp, 'w'), indent=1, sort_keys=True)
        print(mid, ' '.join('%s:%d' % (p, r) for p, r in row.items() if r), flush=True)


if __name__ == '__main__':
    main()
