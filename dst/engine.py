"""The simulation loop: one PRNG, a world of replicas, operations + faults, oracles after
every step, history checks (shadow replay, second schedule) at the end."""
import copy
import random
import signal

from . import gen, isolate, obs, ops, ops_conf, ops_io, ops_nx, ops_paths, ops_stats, oracles, simfs
from .core import Abort, Hang, Precondition, Violation, World, call, exc_class

isolate.reset()     # records the pristine library state (dynetx is imported by now)

# ---------------------------------------------------------------------------- focus table
# roots: list of (directed, removal) the focus may draw; armed: per-step state oracles;
# faults: enabled fault kinds; hist: history checks at the end of a run
FOCUS = {
    'C01': dict(roots=[(0, 1), (1, 1)], armed=['c01'], faults=['F-ORD', 'F-NOT', 'F-BULK'], hist=['sched'],
                all_reps=True, derive=['slice', 'convert', 'nx:clear'], p_derive=[0.0, 0.05, 0.1]),
    'C02': dict(roots=[(0, 1), (1, 1), (0, 1), (1, 1), (0, 0), (1, 0)], armed=['c02'], faults=['F-ORD', 'F-BULK'],
                hist=['c02-final'], derive=['slice', 'convert', 'slice', 'convert', 'nx:clear'], p_derive=[0.0, 0.1], p_node=[0.1, 0.2],
                steps_cap=16),
    'C03': dict(roots=[(0, 1), (1, 1), (0, 1), (1, 1), (0, 0), (1, 0)], armed=['c03'], faults=['F-ORD'], hist=[],
                p_derive=[0.0, 0.1, 0.2], all_reps=True,
                derive=['slice', 'convert', 'restart:snapshots', 'restart:interactions', 'restart:json']),
    'C04': dict(roots=[(0, 1), (1, 1)], armed=['c04'], faults=['F-ORD', 'F-BULK'], hist=['sched'],
                all_reps=True, derive=['slice', 'convert', 'nx:clear'], p_derive=[0.0, 0.05, 0.1]),
    'C05': dict(roots=[(0, 1), (1, 1)], armed=['c05'], faults=['F-ORD'], hist=['sched'],
                all_reps=True, derive=['slice', 'convert', 'nx:clear'], p_derive=[0.0, 0.05, 0.1]),
    'C06': dict(roots=[(0, 1), (1, 1)], armed=['c03', 'c04', 'c05', 'attrs'], scope='derived', faults=['F-ORD'],
                hist=[], derive=['slice'], p_derive=[0.15, 0.3], p_node=[0.1, 0.2]),
    'C09': dict(roots=[(0, 1), (1, 1)], armed=[], faults=['F-ORD'], hist=[],
                derive=['restart:snapshots', 'parse:snapshots'], p_derive=[0.2, 0.35], level='fault_enumeration',
                io_faults=True, variants=True, steps_cap=20),
    'C10': dict(roots=[(0, 1), (1, 1)], armed=[], faults=['F-ORD'], hist=[],
                derive=['restart:interactions', 'parse:interactions'], p_derive=[0.2, 0.35], level='fault_enumeration',
                io_faults=True, variants=True, steps_cap=20),
    'C11': dict(roots=[(0, 1), (1, 1)], armed=['attrs'], faults=['F-ORD'], hist=[],
                derive=['restart:json'], p_derive=[0.2, 0.35], p_node=[0.15, 0.3], steps_cap=20),
    'C18': dict(roots=[(0, 1), (1, 1)], armed=[], faults=['F-ORD'], hist=[],
                derive=['parse', 'parse', 'parse', 'compact'], p_derive=[0.5, 0.7], level='fault_enumeration',
                variants=True, steps_cap=12),
    'C12': dict(roots=[(0, 1), (1, 1), (0, 1), (1, 1), (0, 1), (1, 1), (0, 0), (1, 0)], armed=[], faults=['F-ORD'], hist=[], small=True,
                derive=['probe_paths'] * 6 + ['probe_all', 'probe_all', 'slice', 'nx:clear', 'convert', 'restart:snapshots', 'restart:json', 'freeze'], p_derive=[0.3, 0.5]),
    'C13': dict(roots=[(0, 1), (1, 1), (0, 1), (1, 1), (0, 1), (1, 1), (0, 0), (1, 0)], armed=[], faults=['F-ORD'], hist=[], small=True,
                derive=['probe_paths'] * 6 + ['probe_all', 'probe_all', 'slice', 'nx:clear', 'convert', 'restart:snapshots', 'restart:json', 'freeze'], p_derive=[0.3, 0.5]),
    'C15': dict(roots=[(0, 1), (1, 1), (0, 1), (1, 1), (0, 1), (1, 1), (0, 0), (1, 0)], armed=[], faults=['F-ORD'], hist=[], small=True,
                derive=['probe_dag'] * 8 + ['slice', 'nx:clear', 'convert', 'restart:snapshots', 'restart:json', 'freeze'], p_derive=[0.3, 0.5]),
    'C17': dict(roots=[(0, 1), (0, 1), (1, 1)], armed=[], faults=['F-ORD'], hist=[], selfloops=[0.0, 0.0, 0.05],
                derive=['probe_stats'] * 8 + ['slice', 'restart:snapshots', 'restart:interactions', 'restart:json', 'convert', 'nx:clear', 'freeze'], p_derive=[0.3, 0.5]),
    'C19': dict(roots=[(0, 1), (1, 1), (0, 1), (1, 1), (0, 0), (1, 0)], armed=[], faults=['F-ORD', 'F-BULK'],
                hist=['shadow'], derive=['nx:blocked', 'nx:blocked', 'nx:any', 'nx:any', 'nx:frozen', 'freeze'],
                p_derive=[0.3, 0.5], p_node=[0.1, 0.2], level='fault_enumeration', steps_cap=24),
    'C20': dict(roots=[(0, 1)], armed=[], faults=['F-ORD'], hist=[], small=True, selfloops=[0.0], chains=True,
                derive=['probe_conf'] * 8 + ['slice', 'restart:snapshots', 'restart:json', 'nx:clear'], p_derive=[0.25, 0.4], p_node=[0.0, 0.1]),
    'C16': dict(roots=[(0, 1), (1, 1)], armed=['c03', 'c04', 'c05', 'attrs'], scope='derived', faults=['F-ORD'],
                hist=[], derive=['convert', 'alias'], p_derive=[0.15, 0.3], p_node=[0.1, 0.25]),
    'C07': dict(roots=[(0, 1), (1, 1), (0, 0), (1, 0)], armed=['c07'], level='fault_enumeration', variants=True,
                faults=['F-ORD', 'F-NOT', 'F-BULK', 'F-ITER'], hist=['shadow'], p_fault=[0.2, 0.3, 0.4]),
    'C08': dict(roots=[(0, 0), (1, 0)], armed=['c08'], faults=['F-ORD', 'F-BULK'], hist=['sched'],
                derive=['nx:clear'], p_derive=[0.0, 0.05, 0.1]),
}


# reach probes: counters that must be non-zero after a batch of >= 4000 runs, otherwise the check
# is a harness error (a probe stuck at zero means the workload no longer reaches what it claims)
CORE_REACH = ['add.first.pt', 'add.gap.pt', 'add.adjacent.sp', 'add.adjacent-to-pt.pt', 'add.overlap.sp',
              'add.overlap-samestart.sp', 'add.contained.pt', 'add.contained.sp', 'add.contained-dup.sp',
              'add.overlap.sp.swapped', 'fault.F-ORD']
REACH = {
    'C01': CORE_REACH + ['sched.compared', 'fault.F-NOT', 'bulk.path.func', 'bulk.star.method', 'bulk.cycle.method'],
    'C02': ['root.D.accumulative', 'root.U.removal', 'slice.cuts-both', 'convert.undirected'],
    'C03': CORE_REACH, 'C04': CORE_REACH + ['sched.compared'], 'C05': CORE_REACH + ['sched.compared'],
    'C06': ['slice.cuts-both', 'slice.cuts-head', 'slice.cuts-tail', 'slice.between-runs', 'slice.inverted',
            'slice2.overlap', 'slice2.disjoint', 'slice.misses-everything'],
    'C07': ['fault.F-ORD', 'fault.F-NOT', 'fault.F-BULK', 'fault.F-ITER', 'variants.run', 'fault.F-BULK.k=2',
            'root.U.accumulative'],
    'C08': ['add.acc', 'sched.compared', 'fault.F-ORD'],
    'C09': ['fault.F-WR.raised', 'fault.F-RD.raised', 'fault.F-CLOSE.raised', 'restart.snapshots.path.gz',
            'restart.snapshots.path.bz2', 'restart.snapshots.bytesio', 'restart.snapshots.duck',
            'restart.snapshots.simhandle', 'parse.snapshots.read.keys', 'variants.run'],
    'C10': ['fault.F-WR.raised', 'fault.F-RD.raised', 'fault.F-CLOSE.raised', 'restart.interactions.path.gz',
            'restart.interactions.path.bz2', 'restart.interactions.bytesio', 'parse.interactions.read.keys',
            'parse.interactions.parse', 'variants.run'],
    'C11': ['restart.json', 'restart.json.no-directed-key'],
    'C12': ['probe.paths.complete.nonempty', 'probe.paths.sampled.first', 'probe.paths.sampled.last',
            'probe.paths.sampled.random', 'probe.allpaths.nonempty'],
    'C13': ['probe.paths.complete.nonempty', 'probe.paths.sampled.first', 'probe.paths.absent-at-start',
            'probe.allpaths.nonempty'],
    'C15': ['probe.dag.nonempty', 'probe.dag.window-ends-before-last-id', 'probe.dag.invalid-window',
            'probe.dag.no-snapshots'],
    'C16': ['convert.directed', 'convert.undirected', 'convert.undirected.reciprocal', 'fault.F-ALIAS.node_nested',
            'fault.F-ALIAS.graph_nested'],
    'C17': ['probe.stats.measures', 'probe.stats.measures.multi-run-timeline', 'probe.stats.inter-event'],
    'C18': ['fault.F-BADFIELD', 'parse.snapshots.read.keys', 'parse.interactions.read.keys', 'compact',
            'fault.F-NOISE.comment2', 'fault.F-NOISE.commented-row', 'fault.F-NOISE.trail-comment2'],
    'C19': ['fault.F-NX.add_edge', 'fault.F-NX.update', 'fault.F-NXANY.clear', 'fault.F-NXANY.clear_edges',
            'fault.F-FROZEN.clear', 'fault.F-FROZEN.clear_edges', 'freeze', 'fault.F-NXANY.add_node'],
    'C20': ['probe.conf.mirror', 'probe.conf.uniform', 'probe.conf.mixed', 'probe.conf.sliding.nonempty',
            'probe.conf.some-node-reaches-another'],
}


class RunResult:
    def __init__(self):
        self.violation = None     # dict
        self.status = 'ok'        # ok | violation | precondition | abort
        self.note = None
        self.ops = []
        self.stats = None
        self.trans = set()
        self.digest = None
        self.evals = 0
        self.guard_hits = None
        self.sample = None


def _alarm(signum, frame):
    raise Hang()


def op_window(world, rep, op):
    ext = [op.get('t'), op.get('e'), op.get('t_from'), op.get('t_to')]
    lo, hi = oracles.window(rep.m, [x for x in ext if isinstance(x, int)])
    if hi - lo > (1500 if world.big else 300):
        raise Abort('instant window too wide for a sweep (%d): operation aimed at a replica of another origin' % (hi - lo))
    return lo, hi


# ---------------------------------------------------------------------------- one step
def execute(world, op):
    """perform one concrete operation; returns the outcome record"""
    kind = op['op']
    if kind == 'root':
        out = ops.new_root(world, op)
        world.rec({'op': op, 'out': out['out']})
        world.history.append(op)
        return out
    if kind == 'sched_b':
        if not world.quiet:
            second_schedule(world, op)
        return {'out': 'ok', 'fault': False, 'cls': 'sched_b', 'keys': []}
    world.history.append(op)
    rep = world.rep_by_id(op.get('g', 0))
    if rep is None:
        return {'out': 'skipped', 'fault': False, 'cls': 'skip', 'keys': []}
    return execute_owned(world, rep, op, kind)


OWNER = {'slice': ('C06',), 'slice2': ('C06',), 'slice_acc': ('C03',), 'convert': ('C16',), 'mutate_attr': ('C16', 'C06', 'C11'),
         'restart:snapshots': ('C09',), 'restart:interactions': ('C10',), 'restart:json': ('C11',),
         'parse:snapshots': ('C09', 'C18'), 'parse:interactions': ('C10', 'C18'), 'compact': ('C18',),
         'probe_paths': ('C12', 'C13'), 'probe_all': ('C12', 'C13'), 'probe_dag': ('C15',), 'probe_stats': ('C17',),
         'probe_conf': ('C20',), 'nx': ('C19',), 'freeze': ('C19',)}


def execute_owned(world, rep, op, kind):
    c07 = (not world.quiet) and 'c07' in world.armed and kind in ('add', 'bulk')
    if c07:
        lo, hi = op_window(world, rep, op)
        pre_obs = obs.full(rep.g, lo, hi)
        pre_copy = copy.deepcopy(rep.g)
    owner = OWNER.get(kind) or OWNER.get(kind + ':' + str(op.get('via') or op.get('fmt')))
    world.last_derived = None
    try:
        if kind == 'add':
            out = ops.do_add(world, rep, op)
        elif kind == 'bulk':
            out = ops.do_bulk(world, rep, op)
        elif kind == 'node':
            out = ops.do_node(world, rep, op)
        elif kind == 'slice':
            out = ops.do_slice(world, rep, op)
        elif kind == 'slice2':
            out = ops.do_slice2(world, rep, op)
        elif kind == 'slice_acc':
            out = ops.do_slice_acc(world, rep, op)
        elif kind == 'convert':
            out = ops.do_convert(world, rep, op)
        elif kind == 'mutate_attr':
            out = ops.do_mutate_attr(world, rep, op)
        elif kind == 'probe_paths':
            out = ops_paths.do_probe_paths(world, rep, op)
        elif kind == 'probe_all':
            out = ops_paths.do_probe_all_paths(world, rep, op)
        elif kind == 'probe_dag':
            out = ops_paths.do_probe_dag(world, rep, op)
        elif kind == 'probe_stats':
            out = ops_stats.do_probe_stats(world, rep, op)
        elif kind == 'probe_conf':
            out = ops_conf.do_probe_conf(world, rep, op)
        elif kind == 'nx':
            out = ops_nx.do_nx(world, rep, op)
        elif kind == 'freeze':
            out = ops_nx.do_freeze(world, rep, op)
        elif kind == 'restart':
            out = ops_io.do_restart(world, rep, op)
        elif kind == 'parse':
            out = ops_io.do_parse(world, rep, op)
        elif kind == 'compact':
            out = ops_io.do_compact(world, rep, op)
        else:
            raise ValueError(kind)
    except Violation as v:
        if owner and world.focus == 'C03' and getattr(world, 'last_derived', None) is not None and not world.quiet:
            # the constructor's own oracle (another property's) failed; C03 still judges what it
            # owns about the produced graph: canonical timelines whose union is the graph's presence
            h, world.last_derived = world.last_derived, None
            lo, hi = op_window(world, rep, op)
            world.evals += oracles.c03_intrinsic(h, lo, hi)
        if owner and world.focus == 'C03' and kind in ('slice', 'slice2', 'convert') and not world.quiet:
            # ... and about the SOURCE, which a constructor must not have turned non-canonical either
            lo, hi = oracles.window(rep.m)
            world.evals += oracles.c03_intrinsic(rep.g, lo - 2, hi + 2)
        if owner and world.focus not in owner and not world.quiet:
            # the operation's own oracles belong to another property: the run is discarded (that
            # property's check reports the defect), never filed under this focus
            raise Precondition('%s/%s failed in a run focused on %s' % (v.oracle, v.sub, world.focus))
        raise
    if out['out'] == 'skipped':
        return out
    if not world.quiet:
        world.trans.add(hash((rep.m.digest_state(), out['cls'])))
    if c07 and out['fault']:
        check_c07(world, rep, op, out, pre_obs, pre_copy, lo, hi)
    # what the shadow replay (faults removed) executes instead of this operation
    if not out['fault']:
        world.accepted_ops.append(op)
    elif out.get('applied'):
        es = ops.edges_of(op['kind'], op['items'])[:out['applied']]
        world.accepted_ops.append({'op': 'bulk', 'g': op['g'], 'kind': 'from', 'items': [list(x) for x in es],
                                   't': op['t'], 'e': op.get('e'), 'container': 'list'})
    world.rec({'op': op, 'out': out['out'], 'cls': out['cls']})
    world.step += 1
    sparse_skip = world.check_every > 1 and world.step % world.check_every != 0 and out.get('new') is None
    if not world.quiet and not sparse_skip:
        if out.get('new') is not None:
            step_checks(world, world.reps[out['new']], op, out)
        else:
            step_checks(world, rep, op, out)
        if 'attrs' in world.armed:
            for i, r in enumerate(world.reps):
                if r.shared_attrs and r.prov != 'slice':
                    continue
                am = ops.attrs_mismatch(r.g, r.m) if r.prov != 'slice' else None
                if am:
                    raise Violation(world.focus + '.attrs', 'isolation-or-attrs', dict(am, replica=i, after=op))
            world.evals += 1
    return out


def check_c07(world, rep, op, out, pre_obs, pre_copy, lo, hi):
    """a rejected update leaves no trace; a failed bulk call leaves exactly its accepted prefix"""
    post = obs.full(rep.g, lo, hi)
    world.evals += 1
    if out.get('applied'):
        es = ops.edges_of(op['kind'], op['items'])[:out['applied']]
        for (u, v) in es:
            st, r = call(pre_copy.add_interaction, u, v, op['t'], op.get('e'))
            if st != 'ok':
                raise Abort('prefix element rejected on the scratch copy: %s' % exc_class(r))
        exp = obs.full(pre_copy, lo, hi)
        d = obs.diff(exp, post)
        if d and out.get('alt_none') and not obs.diff(pre_obs, post):
            d = []
        if d:
            raise Violation('C07.bulk-prefix', ','.join(d),
                            {'op': op, 'applied': out['applied'], 'expected': {k: exp[k] for k in d},
                             'got': {k: post[k] for k in d}})
    else:
        d = obs.diff(pre_obs, post)
        if d:
            raise Violation('C07.no-trace', ','.join(d),
                            {'op': op, 'outcome': out['out'], 'before': {k: pre_obs[k] for k in d},
                             'after': {k: post[k] for k in d}})


def step_checks(world, rep, op, out):
    """armed per-step oracles: on the touched replica, and in the focuses that quantify over
    histories of one graph in the presence of other live objects (C01 C03 C04 C05) on every
    replica of the world - an operation on one graph must not move another"""
    spec = FOCUS[world.focus]
    if spec.get('all_reps') and len(world.reps) > 1:
        for r in world.reps:
            check_replica(world, r, op if r is rep else {'op': 'untouched', 'after': op})
    else:
        check_replica(world, rep, op)


def check_replica(world, rep, op):
    m = rep.m
    lo, hi = op_window(world, rep, op)
    armed = world.armed
    focus = world.focus
    if world.poke:
        oracles.poke_observers(rep.g, lo, hi)
    # C01 agreement is the base of every other oracle: violation under C01/C08, precondition elsewhere
    bad = oracles.presence_mismatch(rep, lo, hi)
    if bad:
        if 'c01' in armed or 'c08' in armed:
            raise Violation('C01.presence', bad[0], {'query': bad[1], 'got': bad[2], 'after': op})
        if focus in ('C03', 'C05') and FOCUS[focus].get('scope') is None:
            rep.diverged = True            # judged on the model-free / relational clauses from here on
            world.count(focus.lower() + '.relational-only')
        else:
            raise Precondition('C01.presence %r' % (bad,))
    if getattr(world, 'diverged', False):
        rep.diverged = True
    if getattr(rep, 'diverged', False):
        if focus == 'C03':
            world.evals += oracles.c03_intrinsic(rep, lo, hi)
        elif focus == 'C05' and m.removal:
            world.evals += oracles.c05(rep, oracles.observed_presence(rep, lo, hi))
        return
    if 'c01' in armed:
        world.evals += getattr(rep, '_n', 1)
    nonempty = bool(m.keys())
    if FOCUS[focus].get('scope') == 'derived' and not rep.derived:
        return
    if 'c03' in armed and m.removal:
        world.evals += oracles.c03(rep)
    if 'c04' in armed and m.removal:
        world.evals += oracles.c04(rep, lo, hi)
    if 'c05' in armed and m.removal:
        world.evals += oracles.c05(rep)
        if getattr(rep, 'guard_hit', None):
            world.guard_hits[rep.guard_hit] += 1
            rep.guard_hit = None
    if 'c02' in armed:
        from . import oracle_c02
        ts = [None] + sorted({x + d for x in (op.get('t'), op.get('e'), op.get('t_from'), op.get('t_to'))
                              if isinstance(x, int) for d in (-1, 0, 1)})[:7]
        world.evals += oracle_c02.sweep(world, rep, ts)
    if 'c08' in armed and not m.removal and nonempty:
        world.evals += oracles.c08(rep, lo, hi)


# ---------------------------------------------------------------------------- generation
def gen_step(world, rng, cfg):
    """choose the next operation from the models' point of view"""
    spec = FOCUS[world.focus]
    if world.pending:
        return world.pending.pop(0)
    rep_i = rng.randrange(len(world.reps))
    rep = world.reps[rep_i]
    rep_i = world.rid_of(rep_i)
    if spec.get('small') and rep.m.removal and rng.random() < 0.12:
        # temporal walk motif: point interactions along a walk of nodes at increasing instants, possibly
        # returning to its first node, with an instant in between at which only another pair interacts
        nodes = cfg['nodes']
        ids = rep.m.instants()
        base = ids[0] if ids and abs(ids[0] - cfg['origin']) > 64 else cfg['origin']
        t = (ids[-1] + 1) if ids and rng.random() < 0.5 else base + rng.randint(0, 2)
        walk = [rng.choice(nodes)]
        for _ in range(rng.randint(2, 4)):
            walk.append(rng.choice([n for n in nodes if n != walk[-1]] or nodes))
        if rng.random() < 0.5 and len(walk) > 2:
            walk.append(walk[0])
        ops_ = []
        for a, b in zip(walk[:-1], walk[1:]):
            ops_.append({'op': 'add', 'g': rep_i, 'u': a, 'v': b, 't': t, 'e': None, 'sp': 'pos'})
            t += 1
            if rng.random() < 0.3:
                others = [n for n in nodes if n not in (a, b)]
                if len(others) >= 2:
                    x, y = rng.sample(others, 2)
                    ops_.append({'op': 'add', 'g': rep_i, 'u': x, 'v': y, 't': t, 'e': None, 'sp': 'pos'})
                    t += 1
        if rng.random() < 0.6:
            # tail: an instant at which the walk's last node is idle (only a foreign pair interacts), then a
            # hop leaving it - the waiting rule says no path may bridge that instant
            last = walk[-1]
            others = [n for n in nodes if n != last]
            if len(others) >= 2:
                x, y = rng.sample(others, 2)
                ops_.append({'op': 'add', 'g': rep_i, 'u': x, 'v': y, 't': t, 'e': None, 'sp': 'pos'})
                t += 1
                ops_.append({'op': 'add', 'g': rep_i, 'u': last, 'v': rng.choice(others), 't': t, 'e': None, 'sp': 'pos'})
        ok = list(ops_)
        world.pending = ok[1:]
        world.count('gen.walk-motif')
        return ok[0]
    if cfg.get('scale') and rep.m.removal and not world.comb_done and rng.random() < 0.08:
        # comb motif: one pair collects 9-16 separate runs (long per-pair timelines: bisection fast
        # paths, per-pair indexes and thresholds on the number of intervals)
        world.comb_done = True
        u, v = gen.pick_pair(rng, rep.m, cfg)
        runs = rep.m.runs(rep.m.key(u, v))
        ids = rep.m.instants()
        t = (runs[-1][1] + 2) if runs else ((ids[0] if ids else cfg['origin']) + rng.randint(0, 2))
        ops_ = []
        for _ in range(rng.randint(9, 16)):
            ln = rng.choice([1, 1, 2, 3, 5])
            ops_.append({'op': 'add', 'g': rep_i, 'u': u, 'v': v, 't': t,
                         'e': None if (ln == 1 and rng.random() < 0.5) else t + ln, 'sp': 'pos'})
            t += ln + rng.randint(1, 2)
        world.pending = ops_[1:]
        world.count('gen.comb-motif')
        return ops_[0]
    x = rng.random()
    fault = None
    if x < cfg['p_fault']:
        fault = rng.choice(spec['faults'])
    op = None
    if cfg.get('big_events') and not world.big_done and rep.m.removal and len(world.reps) <= 2:
        # more than 1000 stream events (any internal block size of a writer): every pair appears and
        # vanishes at 36 separate instants
        world.big_done = True
        nodes = cfg['nodes']
        pairs = [[a, b] for i, a in enumerate(nodes) for b in nodes[i + 1:]]
        ids = rep.m.instants()
        t0 = (ids[-1] + 2) if ids else cfg['origin']
        ops_ = [{'op': 'bulk', 'g': rep_i, 'kind': 'from', 'form': 'method', 'items': pairs, 't': t0 + 2 * k,
                 'e': t0 + 2 * k + 1, 'container': 'list', 't_kw': True} for k in range(max(36, 1100 // (2 * len(pairs)) + 1))]
        world.pending = ops_[1:] + [dict(gen.gen_restart(rng, rep, cfg, 'interactions'), g=rep_i, rid=world.next_rid)]
        world.next_rid += 1
        return ops_[0]
    if cfg.get('big') and not world.big_done and rep.m.removal and len(world.reps) <= 2:
        # one very long span (more rows than any internal block or buffer size) early in the run
        world.big_done = True
        u, v = gen.pick_pair(rng, rep.m, cfg)
        ids = rep.m.instants()
        a = (ids[-1] + 2) if ids else cfg['origin']
        return {'op': 'add', 'g': rep_i, 'u': u, 'v': v, 't': a, 'e': a + rng.randint(515, 700), 'sp': 'pos'}
    derive = spec.get('derive')
    if derive and world.focus == 'C03' and not rep.m.removal and rep.m.keys() and rng.random() < max(cfg.get('p_derive', 0), 0.1):
        ids = rep.m.instants()
        a = rng.randint(ids[0] - 1, ids[-1])
        return {'op': 'slice_acc', 'g': rep_i, 't_from': a, 't_to': a + rng.randint(0, 6), 'form': rng.choice(['method', 'func'])}
    if derive and rng.random() < cfg.get('p_derive', 0) and (rep.m.removal or world.focus in ('C19', 'C08', 'C12', 'C13', 'C15')) and (rep.m.keys() or rng.random() < 0.1):
        d = rng.choice(derive)
        if not rep.m.removal and world.focus in ('C12', 'C13', 'C15') and not (d.startswith('probe_') or d in ('nx:clear', 'freeze')):
            # accumulative graphs are in the domain of the path properties, but slices, conversions and file
            # copies of them are nobody's subject (C06/C16/C09.. quantify over removal-enabled graphs)
            d = spec['derive'][0]
        if d == 'alias':
            op = gen.gen_mutate_attr(rng, rep, cfg)
        elif d == 'compact':
            op = gen.gen_compact(rng, cfg)
        elif d == 'probe_stats':
            op = {'op': 'probe_stats'}
        elif d == 'probe_conf':
            op = gen.gen_probe_conf(rng, rep, cfg)
        elif d == 'freeze':
            if not rep.m.frozen and rng.random() < 0.3:
                op = {'op': 'freeze'}
        elif d.startswith('nx:'):
            mode = d.split(':')[1]
            if mode == 'frozen' and not rep.m.frozen:
                mode = 'blocked'
            if mode == 'clear':
                # wipe the graph in the middle of a history (stale caches / indexes surface afterwards)
                op = {'op': 'nx', 'mode': 'any', 'name': rng.choice(['clear', 'clear_edges']), 'args': [], 'kwargs': {}} \
                    if rng.random() < 0.5 and rep.m.keys() else None
            else:
                op = ops_nx.gen_nx(rng, rep, cfg, mode)
        elif d.startswith('probe_'):
            op = gen.gen_probe(rng, rep, cfg, d)
        elif d.startswith('parse'):
            if len(world.reps) < 5:
                op = gen.gen_parse(rng, cfg)
                if ':' in d:
                    op['fmt'] = d.split(':')[1]
                    op['rows'] = gen.gen_rows(rng, cfg, op['fmt'], op['directed'])
                    op['noise'] = [[min(p, len(op['rows'])), k] for p, k in op['noise']]
                    op['deco'] = {k: v for k, v in op['deco'].items() if int(k) < len(op['rows'])}
                    if op.get('bad_row') is not None:
                        op['bad_row'] = min(op['bad_row'], len(op['rows']) - 1)
        elif d.startswith('restart:'):
            if len(world.reps) < 4 and not isinstance(cfg['nodes'][0], tuple):     # tuple ids have no file form
                op = gen.gen_restart(rng, rep, cfg, d.split(':')[1],
                                     faults=spec.get('io_faults') and rng.random() < 0.35)
        elif len(world.reps) < 4 or rng.random() < 0.3:
            op = gen.gen_slice(rng, rep, cfg) if d == 'slice' else gen.gen_convert(rng, rep, cfg)
            if len(world.reps) >= 4 and op['op'] != 'slice2':
                op = None
        if op is not None:
            op['g'] = rep_i
            if op['op'] in ('slice', 'convert', 'restart', 'parse'):
                op['rid'] = world.next_rid
                world.next_rid += 1
            return op
    if fault in ('F-BULK', 'F-ITER'):
        op = gen.gen_bulk(rng, rep, cfg, fault)
    elif fault in ('F-ORD', 'F-NOT'):
        if fault == 'F-NOT' and rng.random() < 0.4:
            op = gen.gen_bulk(rng, rep, cfg, fault)
        else:
            op = gen.gen_add(rng, rep, cfg, fault)
    if op is None:
        y = rng.random()
        if y < cfg['p_bulk']:
            op = gen.gen_bulk(rng, rep, cfg)
        elif y < cfg['p_bulk'] + cfg['p_node']:
            op = gen.gen_node(rng, rep, cfg)
        else:
            op = gen.gen_add(rng, rep, cfg)
    op['g'] = rep_i
    return op


SCHED_FIELDS = {'C01': ['presence', 'ever'], 'C03': ['timelines'], 'C04': ['ids', 'counts'], 'C05': ['stream'],
                'C08': ['presence', 'ever', 'ids', 'stream']}


def sched_obs(world):
    out = []
    for o in snapshot_world(world):
        o = dict(o)
        o['stream'] = tuple(sorted(o['stream'], key=repr))   # per-instant sets: order inside an instant is free
        out.append(o)
    return out


def second_schedule(world, op):
    """the same client programs under another interleaving give the same final observables"""
    by_uid = {o.get('uid'): o for o in world.history if o.get('uid') is not None}
    roots = [o for o in world.history if o['op'] == 'root']
    order = [by_uid[u] for u in op['order'] if u in by_uid]
    w2 = World(world.focus, world.profile)
    w2.armed, w2.quiet = world.armed, True
    try:
        for o in roots + order:
            execute(w2, o)
    except Violation as v:
        raise Violation(v.oracle, v.sub + '(schedule-B)', v.detail)
    a, b = sched_obs(world), sched_obs(w2)
    world.evals += 1
    world.count('sched.compared')
    for i, (x, y) in enumerate(zip(a, b)):
        d = obs.diff(x, y)
        mine = [f for f in d if f in SCHED_FIELDS.get(world.focus, [])]
        if mine:
            raise Violation(world.focus + '.schedule', ','.join(mine),
                            {'replica': i, 'schedule_A': {k: x[k] for k in mine}, 'schedule_B': {k: y[k] for k in mine}})
        if d:
            raise Precondition('schedule dependence outside the focus: %s' % d)


def gen_sched_run(world, rng, cfg):
    """commuting client programs: each client owns disjoint pairs and its concrete calls are
    drawn from a per-client PRNG against a private model, so they are identical under every
    schedule; returns (roots, ops in schedule A, sched_b pseudo-op)"""
    from .model import ModelGraph
    spec = FOCUS[world.focus]
    d, r = rng.choice(spec['roots'])
    root = {'op': 'root', 'directed': bool(d), 'removal': bool(r), 'rid': 0}
    world.next_rid = 1
    nodes = cfg['nodes']
    allpairs = [(u, v) for i, u in enumerate(nodes) for v in (nodes if d else nodes[i:])]
    rng.shuffle(allpairs)
    nc = rng.randint(2, 4)
    progs = []
    uid = 0
    for c in range(nc):
        own = allpairs[c::nc][:rng.randint(1, 3)]
        if not own:
            continue
        crng = random.Random(rng.getrandbits(62))
        pm = ModelGraph(bool(d), True)     # private model, removal-style runs drive the span classes
        prog = []
        for _ in range(crng.randint(1, max(2, cfg['steps'] // nc))):
            u, v = crng.choice(own)
            if not d and crng.random() < cfg['p_swap']:
                u, v = v, u
            want = 'ooo' if (crng.random() < cfg['p_fault'] and pm.runs(pm.key(u, v))) else None
            t, e, cls = gen.gen_span(crng, pm, u, v, cfg, want)
            if not r:
                e = e if crng.random() < 0.3 else None
            if cls != 'ooo':
                pm.apply_add(u, v, t, e)
            prog.append({'op': 'add', 'g': 0, 'u': u, 'v': v, 't': t, 'e': e, 'sp': 'pos', 'c': c, 'uid': uid})
            uid += 1
        progs.append(prog)

    def interleave():
        idx = [0] * len(progs)
        out = []
        live = [i for i, p in enumerate(progs) if p]
        while live:
            i = rng.choice(live)
            out.append(progs[i][idx[i]])
            idx[i] += 1
            if idx[i] == len(progs[i]):
                live.remove(i)
        return out
    a = interleave()
    b = interleave()
    return [root], a, {'op': 'sched_b', 'order': [o['uid'] for o in b]}


def gen_roots(world, rng, cfg):
    spec = FOCUS[world.focus]
    n = 1 if rng.random() < 0.7 else 2
    out = []
    for _ in range(n):
        d, r = rng.choice(spec['roots'])
        out.append({'op': 'root', 'directed': bool(d), 'removal': bool(r), 'rid': world.next_rid})
        world.next_rid += 1
    return out


# ---------------------------------------------------------------------------- whole runs
def final_checks(world):
    spec = FOCUS[world.focus]
    if world.check_every > 1:
        # sparse runs: every replica is judged once more at the end
        for rep in world.reps:
            check_replica(world, rep, {'op': 'final'})
    if 'shadow' in spec['hist']:
        shadow_replay(world)
    if 'c02-final' in spec['hist']:
        from . import oracle_c02
        for rep in world.reps:
            lo, hi = oracles.window(rep.m)
            world.evals += oracle_c02.sweep(world, rep, [None] + list(range(lo, hi + 1)))


def snapshot_world(world):
    out = []
    for rep in world.reps:
        lo, hi = oracles.window(rep.m)
        out.append(obs.full(rep.g, lo, hi))
    return out


def shadow_replay(world):
    """the accepted operations alone, replayed on fresh objects, give the same observable state"""
    w2 = World(world.focus, world.profile)
    w2.armed = world.armed
    w2.quiet = True
    for op in list(world.accepted_ops):
        try:
            execute(w2, op)
        except (Violation, Precondition, Abort) as ex:
            raise Abort('shadow replay diverged: %r' % (ex,))
    a, b = snapshot_world(world), snapshot_world(w2)
    world.evals += 1
    for i, (x, y) in enumerate(zip(a, b)):
        d = obs.diff(x, y)
        if d:
            raise Violation('C07.shadow', ','.join(d), {'replica': i, 'with_faults': {k: x[k] for k in d},
                                                        'accepted_only': {k: y[k] for k in d}})


def run(focus, seed=None, ops_list=None, profile=None, keep_log=False):
    """one simulated run: generated from `seed`, or replayed from a concrete operation list"""
    res = RunResult()
    isolate.reset()               # the library state of a fresh interpreter: a run is a function of its seed
    world = World(focus, profile)
    world.armed = set(FOCUS[focus]['armed'])
    world.evals = 0
    rng = random.Random(seed) if ops_list is None else None
    signal.signal(signal.SIGALRM, _alarm)
    signal.alarm(int(__import__("os").environ.get("DST_ALARM","30")))
    executed, outs = [], []
    world.fs = simfs.SimFS()
    world.fs.install()
    try:
        if ops_list is None:
            cfg = gen.swarm(rng, focus, (profile or {}).get('tier', 'quick'))
            if FOCUS[focus].get('small'):
                cfg['nodes'] = cfg['nodes'][:rng.randint(2, 6 if focus == 'C20' else 5)]
                cfg['horizon'] = rng.randint(3, 6)
                cfg['steps'] = min(cfg['steps'], 16)
                cfg['origin'] = rng.choice([0, 0, -7, 10 ** 9])
            if FOCUS[focus].get('chains') and rng.random() < 0.6:
                # sparse, chain-like temporal structure (long minimum hop distances, holes between them)
                cfg['p_span'] = 0.2
                cfg['p_newpair'] = 0.6
                cfg['steps'] = rng.randint(6, 18)
                cfg['horizon'] = rng.randint(4, 7)
            if FOCUS[focus].get('small'):
                cfg['p_selfloop'] = rng.choice([0.0, 0.0, 0.05])
            if 'selfloops' in FOCUS[focus]:
                cfg['p_selfloop'] = rng.choice(FOCUS[focus]['selfloops'])
            world.check_every = rng.choice([1, 1, 1, 1, 2, 5, 10 ** 6])     # frequent observation can mask stale caches
            if cfg.get('scale'):
                world.check_every = rng.choice([5, 10, 10 ** 6])
                world.count('gen.scale')
            world.poke = rng.random() < 0.5
            world.rec({'check_every': world.check_every, 'poke': world.poke})
            if focus == 'C10' and rng.random() < 0.02:
                cfg['big_events'] = True
                cfg['nodes'] = (cfg['nodes'] + [n for n in (gen.INT_NODES if isinstance(cfg['nodes'][0], int) else gen.STR_NODES)
                                                if n not in cfg['nodes']])[:6]
                cfg['steps'] = 60
                cfg['p_derive'] = 0.0
            elif FOCUS[focus].get('io_faults') and rng.random() < 0.04:
                cfg['big'] = True
                world.big = True
                cfg['steps'] = min(cfg['steps'], 8)
                cfg['p_derive'] = 0.5
            if 'steps_cap' in FOCUS[focus]:
                cfg['steps'] = min(cfg['steps'], FOCUS[focus]['steps_cap'] * (3 if cfg.get('scale') else 1))
            for knob in ('p_fault', 'p_derive', 'p_node'):
                if knob in FOCUS[focus]:
                    cfg[knob] = rng.choice(FOCUS[focus][knob])
            if cfg.get('big_events'):
                cfg['steps'], cfg['p_derive'] = 60, 0.0
            elif cfg.get('big'):
                cfg['p_derive'] = 0.5
            world.rec({'seed': seed, 'cfg': {k: v for k, v in cfg.items() if k != 'w'}})
            if 'sched' in FOCUS[focus]['hist'] and rng.random() < 0.3:
                roots, a, b = gen_sched_run(world, rng, cfg)
                plan = roots + a + [b]
            else:
                plan = None
                for op in gen_roots(world, rng, cfg):
                    executed.append(op)
                    outs.append(execute(world, op))
            for i in range(len(plan) if plan else cfg['steps']):
                op = plan[i] if plan else gen_step(world, rng, cfg)
                if op is None:
                    continue
                executed.append(op)
                outs.append(execute(world, op))
        else:
            world.check_every = (profile or {}).get('check_every', 1)
            world.poke = bool((profile or {}).get('poke', False))
            world.big = any(isinstance(o.get('e'), int) and isinstance(o.get('t'), int) and o['e'] - o['t'] > 200
                            for o in ops_list)
            for op in ops_list:
                executed.append(op)
                outs.append(execute(world, op))
        final_checks(world)
    except Violation as v:
        res.status = 'violation'
        res.violation = {'oracle': v.oracle, 'sub': v.sub, 'detail': v.detail, 'step': len(executed) - 1}
    except Precondition as p:
        res.status, res.note = 'precondition', str(p)
    except Abort as a:
        res.status, res.note = 'abort', str(a)
    except Hang:
        if focus in ('C01',):
            res.status = 'violation'
            res.violation = {'oracle': 'C01.outcome', 'sub': 'hang', 'detail': None, 'step': len(executed) - 1}
        else:
            res.status, res.note = 'abort', 'hang'
    finally:
        signal.alarm(0)
        world.fs.uninstall()
    res.stats = world.stats
    for k, v in world.fs.fired.items():
        res.stats['simfs.fired.' + k] += v
    res.ops = executed
    res.outs = outs
    res.profile = dict(profile or {}, check_every=world.check_every, poke=world.poke)
    res.stats = world.stats
    res.trans = world.trans
    res.evals = world.evals
    res.guard_hits = world.guard_hits
    res.digest = world.digest()
    if keep_log:
        res.log = world.log
    return res


def fault_variants(res, limit=24):
    """fault enumeration: for every failed bulk call of a finished run, the same history with
    the failing element moved to every other position / the iterable failing after every
    other count (each variant is a complete, independent history)"""
    out = []
    for i, (op, o) in enumerate(zip(res.ops, res.outs)):
        if op.get('op') == 'restart' and o.get('cls') == 'restart' and op.get('via') != 'json' \
                and op.get('fail_write') is None and op.get('fail_read') is None and not op.get('fail_close'):
            # I/O fault enumeration: every raw write index, every raw read index, and the close
            W, R = o.get('n_writes', 0), o.get('n_reads', 0)
            for k in list(range(min(W, 10))) + ([W - 1] if W > 10 else []):
                out.append(res.ops[:i] + [dict(op, fail_write=k)] + res.ops[i + 1:])
            for k in list(range(min(R, 10))) + ([R - 1] if R > 10 else []):
                out.append(res.ops[:i] + [dict(op, fail_read=k)] + res.ops[i + 1:])
            out.append(res.ops[:i] + [dict(op, fail_close=True)] + res.ops[i + 1:])
            if len(out) >= limit:
                break
            continue
        if op.get('op') == 'parse' and o.get('cls') == 'parse' and op.get('bad_row') is None:
            # conversion failure enumerated over every row index
            for k in range(len(op['rows'])):
                fld = 'time' if (op.get('nodekind') != 'int' or op.get('nodetype_str') or k % 2) else 'node'
                out.append(res.ops[:i] + [dict(op, bad_row=k, bad_field=fld)] + res.ops[i + 1:])
            if len(out) >= limit:
                break
            continue
        if op.get('op') != 'bulk' or not o.get('fault') or op.get('kind') != 'from':
            continue
        items = op['items']
        if op.get('raise_after') is not None:
            for k in range(len(items) + 1):
                if k != op['raise_after']:
                    out.append(res.ops[:i] + [dict(op, raise_after=k)] + res.ops[i + 1:])
        elif o.get('out') == 'ValueError' and o.get('applied') is not None and o['applied'] < len(items):
            k = o['applied']
            bad = items[k]
            rest = items[:k] + items[k + 1:]
            for j in range(len(rest) + 1):
                if j != k:
                    out.append(res.ops[:i] + [dict(op, items=rest[:j] + [bad] + rest[j:])] + res.ops[i + 1:])
        if len(out) >= limit:
            break
    return out[:limit]
