#!/venv/bin/python
"""No-false-alarm self-test (DESIGN.md 9.3): benign refactors and repairs of known findings are
applied to /repo one at a time; every registered quick check must stay silent (exit 0).

usage: tools_benign.py [--runs N] [patch ...]
"""
import glob
import json
import os
import subprocess
import sys

ROOT = os.path.dirname(os.path.abspath(__file__))


def sh(cmd, cwd=None, timeout=3000):
    p = subprocess.run(cmd, shell=True, cwd=cwd, capture_output=True, text=True, timeout=timeout)
    return p.returncode, p.stdout + p.stderr


def main():
    args = sys.argv[1:]
    runs = 3000
    if args and args[0] == '--runs':
        runs = int(args[1]); args = args[2:]
    patches = args or sorted(glob.glob(os.path.join(ROOT, 'benign', '*.diff')))
    man = json.load(open(os.path.join(ROOT, 'MANIFEST.json')))
    props = [c['property_id'] for c in man['checks']]
    out = {}
    bad = 0
    for p in patches:
        rc, o = sh('git -C /repo status --porcelain')
        assert o.strip() == '', '/repo not clean'
        rc, o = sh('git -C /repo apply %s' % p)
        assert rc == 0, o
        res = {}
        try:
            for c in props:
                rc, o = sh('./check %s --runs %d --no-min' % (c, runs), cwd=ROOT)
                res[c] = rc
                if rc != 0:
                    bad += 1
                    print('ALARM', os.path.basename(p), c, 'exit', rc)
                    print('\n'.join([ln[:300] for ln in o.splitlines() if 'VIOLATION' in ln or 'oracle=' in ln or 'HARNESS' in ln][:4]))
        finally:
            sh('git -C /repo checkout -- .')
        out[os.path.basename(p)] = res
        print(os.path.basename(p), 'silent' if all(v == 0 for v in res.values()) else res)
    json.dump(out, open(os.path.join(ROOT, 'benign', 'RESULTS.json'), 'w'), indent=1)
    return 1 if bad else 0


if __name__ == '__main__':
    sys.exit(main())
