"""SimFS: an in-memory file system behind builtins.open for paths under /sim/ (DESIGN 2.1).

A SimFS file is a RawIOBase over a bytearray wrapped in the *real* io.Buffered* /
TextIOWrapper layers, so buffering, gzip and bz2 framing are real stdlib code.  Bytes are
on the simulated disk once they reach the raw file's write().  SimFS keeps a strong
reference to every wrapper it hands out, so a forgotten close() is not rescued by
reference counting.  Fault points: fail the k-th raw write / read, or the close.
"""
import builtins
import bz2
import errno
import gzip
import io

ROOT = '/sim/'
_REAL_OPEN = builtins.open
_REAL_BZ2_OPEN = bz2._builtin_open
_REAL_GZIP_TIME = gzip.time
_CURRENT = None


def _sim_open(file, mode='r', buffering=-1, encoding=None, errors=None, newline=None, closefd=True, opener=None):
    """the one stable callable installed as builtins.open: dynetx caches whatever `open` it sees
    first per file extension (defaultdict in utils/decorators.py), so the callable must not be
    bound to one run's SimFS instance"""
    if _CURRENT is not None and isinstance(file, str) and file.startswith(ROOT):
        return _CURRENT.open(file, mode, buffering, encoding, errors, newline)
    return _REAL_OPEN(file, mode, buffering, encoding, errors, newline, closefd, opener)


class _ConstClock:
    @staticmethod
    def time():
        return 1700000000.0


class SimRaw(io.RawIOBase):
    def __init__(self, fs, path, mode):
        super().__init__()
        self.fs, self.name, self.mode = fs, path, mode
        self._pos = 0
        self._w = 'w' in mode or 'a' in mode
        if 'w' in mode:
            fs.files[path] = bytearray()
        elif path not in fs.files:
            if 'a' in mode:
                fs.files[path] = bytearray()
            else:
                raise FileNotFoundError(errno.ENOENT, 'No such simulated file', path)
        if 'a' in mode:
            self._pos = len(fs.files[path])
        fs.trace.append(('open', path, mode))

    def readable(self):
        return not self._w

    def writable(self):
        return self._w

    def seekable(self):
        return True

    def seek(self, off, whence=0):
        n = len(self.fs.files[self.name])
        self._pos = off if whence == 0 else (self._pos + off if whence == 1 else n + off)
        return self._pos

    def tell(self):
        return self._pos

    def readinto(self, b):
        fs = self.fs
        i = fs.n_reads
        fs.n_reads += 1
        if fs.fail_read is not None and i >= fs.fail_read:
            fs.fired['F-RD'] += 1
            fs.trace.append(('read-fail', self.name, i))
            raise OSError(errno.EIO, 'simulated read error', self.name)
        data = fs.files[self.name]
        n = min(len(b), fs.rchunk, len(data) - self._pos)
        n = max(n, 0)
        b[:n] = data[self._pos:self._pos + n]
        self._pos += n
        fs.trace.append(('read', self.name, n))
        return n

    def write(self, b):
        fs = self.fs
        i = fs.n_writes
        fs.n_writes += 1
        if fs.fail_write is not None and i >= fs.fail_write:
            fs.fired['F-WR'] += 1
            fs.trace.append(('write-fail', self.name, i))
            raise OSError(fs.write_errno, 'simulated write error', self.name)
        mv = memoryview(b).cast('B')
        n = min(len(mv), fs.wchunk)
        data = fs.files[self.name]
        data[self._pos:self._pos + n] = mv[:n].tobytes()
        self._pos += n
        fs.trace.append(('write', self.name, n))
        return n

    def close(self):
        if self.closed:
            return
        fs = self.fs
        fs.trace.append(('close', self.name))
        try:
            if fs.fail_close and self._w:
                fs.fired['F-CLOSE'] += 1
                raise OSError(errno.EIO, 'simulated close error', self.name)
        finally:
            super().close()


class SimFS:
    def __init__(self, bufsize=8192, rchunk=8192, wchunk=1 << 30):
        from collections import Counter
        self.files = {}
        self.trace = []
        self.handles = []          # (path, mode, outermost wrapper) of everything opened
        self.bufsize, self.rchunk, self.wchunk = bufsize, rchunk, wchunk
        self.n_reads = self.n_writes = 0
        self.fail_read = self.fail_write = None
        self.fail_close = False
        self.write_errno = errno.EIO
        self.fired = Counter()
        self._real_open = None
        self._real_bz2_open = None
        self._gzip_time = None

    # -- the open() seen by the library
    def open(self, file, mode='r', buffering=-1, encoding=None, errors=None, newline=None, closefd=True,
             opener=None):
        if not (isinstance(file, str) and file.startswith(ROOT)):
            return _REAL_OPEN(file, mode, buffering, encoding, errors, newline, closefd, opener)
        binary = 'b' in mode
        raw = SimRaw(self, file, mode.replace('b', '').replace('t', ''))
        size = self.bufsize if buffering in (-1, None) or buffering <= 1 else buffering
        buf = io.BufferedWriter(raw, size) if raw.writable() else io.BufferedReader(raw, size)
        out = buf if binary else io.TextIOWrapper(buf, encoding=encoding or 'utf-8', errors=errors, newline=newline)
        if not binary:
            out.mode = mode
        self.handles.append((file, mode, out))
        return out

    def reset_counters(self):
        self.n_reads = self.n_writes = 0
        self.handles = []

    def unclosed(self):
        return [(p, m) for p, m, h in self.handles if not h.closed]

    # -- installation
    def install(self):
        global _CURRENT
        _CURRENT = self
        builtins.open = _sim_open
        bz2._builtin_open = _sim_open
        gzip.time = _ConstClock

    def uninstall(self):
        global _CURRENT
        _CURRENT = None
        builtins.open = _REAL_OPEN
        bz2._builtin_open = _REAL_BZ2_OPEN
        gzip.time = _REAL_GZIP_TIME


def decode_bytes(path, data):
    """what a later reader of the simulated disk would see (real decompressors)"""
    if path.endswith('.gz') or path.endswith('.gzip'):
        return gzip.decompress(bytes(data))
    if path.endswith('.bz2'):
        return bz2.decompress(bytes(data))
    return bytes(data)


class DuckFile:
    """minimal caller-supplied binary file object (read/write/iter/name), not an io class"""

    def __init__(self, data=b'', name='duck'):
        self._buf = io.BytesIO(data)
        self.name = name
        self.closed = False

    def write(self, b):
        if self.closed:
            raise ValueError('write to closed duck file')
        return self._buf.write(b)

    def read(self, n=-1):
        return self._buf.read(n)

    def __iter__(self):
        return iter(self._buf.getvalue().splitlines(True))

    def close(self):
        self.closed = True

    def getvalue(self):
        return self._buf.getvalue()
