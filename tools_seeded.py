#!/venv/bin/python
"""Confirm a sub-agent's seeded change in a scratch worktree, run the registered quick checks
against it in /repo (apply -> check -> undo), and file it under /verif/seeded/<id>/.

usage: tools_seeded.py <src-dir> <id> <property> [check ...]
"""
import json
import os
import shutil
import subprocess
import sys
import tempfile

ROOT = os.path.dirname(os.path.abspath(__file__))


def sh(cmd, cwd=None, env=None, timeout=1800):
    p = subprocess.run(cmd, shell=True, cwd=cwd, env=env, capture_output=True, text=True, timeout=timeout)
    return p.returncode, p.stdout + p.stderr


def main():
    src, mid, prop = sys.argv[1:4]
    checks = sys.argv[4:] or [prop]
    patch = os.path.join(src, 'patch.diff')
    demo = os.path.join(src, 'demo.py')
    wt = tempfile.mkdtemp(prefix='seedwt-')
    os.rmdir(wt)
    ran = []
    try:
        rc, out = sh('git -C /repo worktree add -q --detach %s HEAD' % wt)
        assert rc == 0, out
        env = dict(os.environ, PYTHONPATH=wt, PYTHONDONTWRITEBYTECODE='1')
        rc0, out0 = sh('/venv/bin/python %s' % demo, cwd=wt, env=env)
        ran.append(('demo on clean worktree', rc0))
        rc, out = sh('git apply %s' % patch, cwd=wt)
        assert rc == 0, 'patch does not apply: ' + out
        rct, outt = sh('/venv/bin/python -m pytest -q -p no:cacheprovider dynetx/test 2>&1 | tail -1', cwd=wt, env=env)
        ran.append(('test suite with change', outt.strip()))
        rc1, out1 = sh('/venv/bin/python %s' % demo, cwd=wt, env=env)
        ran.append(('demo with change', rc1))
    finally:
        sh('git -C /repo worktree remove --force %s' % wt)
        shutil.rmtree(wt, ignore_errors=True)
    confirmed = rc0 == 0 and rc1 == 1 and ' passed' in outt and 'failed' not in outt
    print('confirmed' if confirmed else 'NOT CONFIRMED', ran)
    results = {}
    if confirmed:
        # the registered quick commands, pointed at a scratch checkout that carries the change
        # (VERIF_REPO); equivalent to `git -C /repo apply` + check + `git -C /repo checkout -- .`
        # but leaves /repo untouched so that background soak runs are not disturbed
        wt2 = tempfile.mkdtemp(prefix='seedrun-')
        os.rmdir(wt2)
        try:
            rc, out = sh('git -C /repo worktree add -q --detach %s HEAD && git -C %s apply %s' % (wt2, wt2, patch))
            assert rc == 0, out
            for c in checks:
                rc, out = sh('VERIF_REPO=%s ./check %s --tier quick' % (wt2, c), cwd=ROOT, timeout=3000)
                viol = [ln for ln in out.splitlines() if ln.startswith('VIOLATION') or ln.startswith('  oracle=')]
                results[c] = {'exit': rc, 'lines': [v[:400] for v in viol[:6]],
                              'summary': [ln for ln in out.splitlines() if ' tier=' in ln][-1:]}
                print(c, 'exit', rc, viol[:2])
        finally:
            sh('git -C /repo worktree remove --force %s' % wt2)
            shutil.rmtree(wt2, ignore_errors=True)
    dst = os.path.join(ROOT, 'seeded', mid)
    os.makedirs(dst, exist_ok=True)
    if os.path.realpath(src) != os.path.realpath(dst):
        shutil.copy(patch, os.path.join(dst, 'patch.diff'))
        shutil.copy(demo, os.path.join(dst, 'demo.py'))
        notes = os.path.join(src, 'notes.md')
        if os.path.exists(notes):
            shutil.copy(notes, os.path.join(dst, 'notes.md'))
    meta_p = os.path.join(dst, 'meta.json')
    meta = json.load(open(meta_p)) if os.path.exists(meta_p) else {}
    meta.update({'id': mid, 'property': prop, 'confirmed': confirmed, 'confirmation': ran,
                 'repo_head': sh('git -C /repo rev-parse --short HEAD')[1].strip()})
    meta.setdefault('checks', {}).update(results)
    meta['detected_by'] = sorted(c for c, r in meta['checks'].items() if r['exit'] == 1)
    json.dump(meta, open(meta_p, 'w'), indent=1)
    return 0 if confirmed else 3


if __name__ == '__main__':
    sys.exit(main())
