"""Observation of a dynetx graph through its public API only (DESIGN.md A.13)."""
from .model import nkey


def canon(x):
    """JSON-friendly, order-insensitive canonical form of attribute values"""
    if isinstance(x, dict):
        return ('d',) + tuple(sorted((repr(k), canon(v)) for k, v in x.items()))
    if isinstance(x, (list, tuple)):
        return ('l',) + tuple(canon(v) for v in x)
    if isinstance(x, (set, frozenset)):
        return ('s',) + tuple(sorted(repr(v) for v in x))
    return repr(x)


def tl_norm(tl):
    return tuple((int(a), int(b)) for a, b in tl)


def okey(directed, u, v):
    return (u, v) if directed else frozenset((u, v))


def kcanon(directed, k):
    if directed:
        return (nkey(k[0]), nkey(k[1]))
    ks = sorted(map(nkey, k))
    return (ks[0], ks[-1])


def timelines(G):
    """key -> normalised timeline, from the flattened interaction views.
    Returns (timelines, problems): problems lists inconsistencies between the views."""
    directed = G.is_directed()
    out, problems = {}, []
    if directed:
        for u, v, d in G.out_interactions():
            k = (u, v)
            if k in out:
                problems.append(('dup-out', k))
            out[k] = tl_norm(d['t'])
        seen_in = {}
        for u, v, d in G.in_interactions():
            k = (u, v)
            if k in seen_in:
                problems.append(('dup-in', k))
            seen_in[k] = tl_norm(d['t'])
        if seen_in != out:
            problems.append(('in!=out', sorted(map(repr, set(seen_in.items()) ^ set(out.items())))))
    else:
        for n in list(G.nodes()):
            for u, v, d in G.interactions([n]):
                k = frozenset((u, v))
                tl = tl_norm(d['t'])
                if k in out and out[k] != tl:
                    problems.append(('directions-differ', (u, v)))
                out.setdefault(k, tl)
        flat = {}
        for u, v, d in G.interactions():
            k = frozenset((u, v))
            if k in flat:
                problems.append(('dup', (u, v)))
            flat[k] = tl_norm(d['t'])
        if flat != out:
            problems.append(('flat!=pernode', sorted(map(repr, set(flat.items()) ^ set(out.items())))))
    return out, problems


def presence(G, nodes, lo, hi):
    """{(key, t)} over all node pairs and lo..hi, plus the flattened relation"""
    directed = G.is_directed()
    rel, ever = set(), set()
    ns = list(nodes)
    for i, u in enumerate(ns):
        for v in (ns if directed else ns[i:]):
            k = okey(directed, u, v)
            if G.has_interaction(u, v):
                ever.add(k)
            for t in range(lo, hi + 1):
                if G.has_interaction(u, v, t):
                    rel.add((k, t))
    return rel, ever


def stream(G):
    return [tuple(e) for e in G.stream_interactions()]


def stream_keyed(G):
    d = G.is_directed()
    return [(kcanon(d, okey(d, u, v)), op, t) for u, v, op, t in G.stream_interactions()]


def full(G, lo, hi, counts=True):
    """the complete public observable state, canonicalised and comparable with =="""
    d = G.is_directed()
    nodes = [n for n in G.nodes()]
    nd = tuple(sorted((nkey(n), canon(a)) for n, a in G.nodes(data=True)))
    rel, ever = presence(G, nodes, lo, hi)
    tls, problems = timelines(G)
    o = {
        'nodes': nd,
        'graph': canon(dict(G.graph)),
        'presence': tuple(sorted((kcanon(d, k), t) for k, t in rel)),
        'ever': tuple(sorted(kcanon(d, k) for k in ever)),
        'timelines': tuple(sorted((kcanon(d, k), tl) for k, tl in tls.items())),
        'tl_problems': tuple(map(repr, problems)),
        'ids': tuple(G.temporal_snapshots_ids()),
        'stream': tuple(stream_keyed(G)),
    }
    if counts:
        o['counts'] = tuple(sorted(G.interactions_per_snapshots().items()))
    return o


def diff(a, b):
    return [k for k in a if a[k] != b.get(k)]
