"""C02: every snapshot / flattened query projects the one presence relation (A.3).

Observer sweep over all entry points (methods and dn.* functions), instants and nbunch
forms.  Exemptions are tied 1:1 to open findings (D06, D07, D08, D09) and counted.
"""
from collections import Counter
from fractions import Fraction

import dynetx as dn

from .core import Violation, call, exc_class
from .oracles import UNKNOWN


def V(sub, what, t, got, exp, extra=None):
    d = {'entry': what, 't': t, 'impl': repr(got)[:400], 'model': repr(exp)[:400]}
    if extra:
        d.update(extra)
    return Violation('C02.' + sub, what, d)


def ms(xs):
    return Counter(xs)


def get(fn, what_, t_, *a, **k):
    st, r = call(fn, *a, **k)
    if st != 'ok':
        raise Violation('C02.raises', what_, {'t': t_, 'exc': exc_class(r), 'msg': str(r)[:200], 'args': repr(a)[:200]})
    return r


def sweep(world, rep, ts):
    g, m = rep.g, rep.m
    D = m.directed
    guards = world.open_guards
    nodes = list(m.nodes)
    kind = type(nodes[0]) if nodes else int
    unk = UNKNOWN.get(kind, 987654)
    order = list(get(g.nodes, 'nodes()', None))          # implementation's node order (for the D06 guard)
    pos = {n: i for i, n in enumerate(order)}
    # ids that are no nodes but are built from nodes: a tuple of two nodes, the text of two string nodes
    # run together - has_node / get_node_snapshots take ONE id and must not read them as containers
    unks = [unk]
    if len(nodes) >= 2:
        for cand in ((nodes[0], nodes[1]), (nodes[1], nodes[0]), (nodes[-1],)):
            if cand not in m.nodes:
                unks.append(cand)
        if kind is str and nodes[0] and nodes[1] and (nodes[0] + nodes[1]) not in m.nodes:
            unks.append(nodes[0] + nodes[1])
    nb_forms = [None] + [[n] for n in nodes[:4]]
    if len(nodes) >= 2:
        nb_forms.append(nodes[:len(nodes) // 2] + [unk])
        nb_forms.append(list(reversed(nodes[len(nodes) // 2:])))
    nb_forms.append([unk])
    nb_forms.append([])                                   # an empty container restricts to nothing
    nb_forms = [(f, False) for f in nb_forms] + [(f, True) for f in nb_forms[1:] if f and len(f) > 1][:1]
    n_eval = 0
    for t in ts:
        E = [m.oriented(k) for k in m.edges_at(t)]       # list of (u, v); U: one arbitrary orientation
        Eset = set(E)
        loops_at = {n for n in nodes if m.has_selfloop_at(n, t)}
        loopy = bool(loops_at)

        def und(a, b):
            return frozenset((a, b))

        # ---- interactions / in_ / out_
        for nb_list, as_iter in nb_forms:
            # nbunch is "a container of nodes, iterated through once": also handed over as a one-shot iterator
            class _NB:
                def __init__(self, xs):
                    self.xs = xs

                def __call__(self):
                    return iter(list(self.xs)) if as_iter else self.xs
            nbf = _NB(nb_list)
            nb = nb_list
            bare = nb is not None and len(nb) == 1 and nb[0] in m.nodes      # also handed over as a bare node
            inb = (lambda x: True) if nb is None else (lambda x, s=set(nb): x in s)
            for fn, name in ((g.interactions, 'interactions'), (lambda nbunch=None, t=None: dn.interactions(g, nbunch, t=t),
                                                                'dn.interactions'),
                             (lambda nbunch=None, t=None: list(g.interactions_iter(nbunch, t)), 'interactions_iter')):
                r = get(fn, name, t, nbf(), t=t) if name == 'interactions' else get(fn, name, t, nbf(), t)
                got = [(x[0], x[1]) for x in r]
                if bare:
                    r2 = get(fn, name, t, nb[0], t=t) if name == 'interactions' else get(fn, name, t, nb[0], t)
                    if ms((x[0], x[1]) for x in r2) != ms(got):
                        raise V('interactions', name + '(bare node)', t, [(x[0], x[1]) for x in r2], got, {'nbunch': repr(nb[0])})
                if not D:
                    exp = ms(und(a, b) for a, b in E if inb(a) or inb(b))
                    if ms(und(a, b) for a, b in got) != exp:
                        raise V('interactions', name, t, got, sorted(map(sorted, exp), key=repr), {'nbunch': repr(nb)})
                else:
                    exp_all = [(a, b) for a, b in E if inb(a)]
                    if 'D06' in guards:
                        # the finding: an edge a->b is dropped iff b was visited (as a source) before a.
                        # Asserted without assuming the visiting order: duplicate-free subset of the edge
                        # set, and kept/dropped edges must be explainable by SOME visiting order of the
                        # queried nodes (kept a->b: a before b; dropped a->b: b before a, b queried)
                        c = ms(got)
                        kept = set(got)
                        if any(v > 1 for v in c.values()) or not kept <= set(exp_all):
                            raise V('interactions', name, t, got, {'may': exp_all}, {'nbunch': repr(nb)})
                        if kept == set(exp_all):
                            n_eval += 1
                            continue            # complete and duplicate-free: the correct answer
                        import networkx as _nx
                        cons = _nx.DiGraph()
                        queried = set(nodes) if nb is None else set(nb)
                        okd = True
                        for a, b in exp_all:
                            if a == b:
                                okd = okd and (a, b) in kept
                            elif (a, b) in kept:
                                if b in queried:
                                    cons.add_edge(a, b)
                            else:
                                if b not in queried:
                                    okd = False
                                cons.add_edge(b, a)
                        if not okd or not _nx.is_directed_acyclic_graph(cons):
                            raise V('interactions', name, t, got, {'edges': exp_all, 'note': 'kept/dropped edges '
                                    'not explainable by any visiting order'}, {'nbunch': repr(nb)})
                        if len(kept) < len(exp_all):
                            world.guard_hits['D06'] += 1
                    elif ms(got) != ms(exp_all):
                        raise V('interactions', name, t, got, exp_all, {'nbunch': repr(nb)})
                n_eval += 1
            if D:
                for name, fn in (('out_interactions', g.out_interactions),
                                 ('out_interactions_iter', lambda nbunch=None, t=None: list(g.out_interactions_iter(nbunch, t)))):
                    got = [(x[0], x[1]) for x in get(fn, name, t, nbf(), t=t)]
                    exp = [(a, b) for a, b in E if inb(a)]
                    if ms(got) != ms(exp):
                        raise V('interactions', name, t, got, exp, {'nbunch': repr(nb)})
                for name, fn in (('in_interactions', g.in_interactions),
                                 ('in_interactions_iter', lambda nbunch=None, t=None: list(g.in_interactions_iter(nbunch, t)))):
                    got = [(x[0], x[1]) for x in get(fn, name, t, nbf(), t=t)]
                    exp = [(a, b) for a, b in E if inb(b)]
                    if ms(got) != ms(exp):
                        raise V('interactions', name, t, got, exp, {'nbunch': repr(nb)})
                n_eval += 4
            # ---- degree family, dict forms
            if True:
                sel = [n for n in nodes if inb(n)]
                fams = [('degree', g.degree, lambda n: len(m.succ(n, t)) + (len(m.pred(n, t)) if D else 0)),
                        ('dn.degree', lambda nbunch=None, t=None: dn.degree(g, nbunch, t), None)]
                if D:
                    fams += [('in_degree', g.in_degree, lambda n: len(m.pred(n, t))),
                             ('out_degree', g.out_degree, lambda n: len(m.succ(n, t)))]
                for name, fn, f in fams:
                    f = f or fams[0][2]
                    r = get(fn, name, t, nbf(), t=t)
                    exp = {n: f(n) for n in sel}
                    check_degree_dict(world, name, t, dict(r), exp, D, loops_at, guards, nb)
                    n_eval += 1
                for name, fn, f in ([('degree_iter', g.degree_iter, fams[0][2])] +
                                    ([('in_degree_iter', g.in_degree_iter, fams[2][2]),
                                      ('out_degree_iter', g.out_degree_iter, fams[3][2])] if D else [])):
                    r = list(get(lambda: list(fn(nbf(), t=t)), name, t))
                    if len(r) != len(dict(r)):
                        raise V('degree', name, t, r, 'each node once')
                    check_degree_dict(world, name, t, dict(r), {n: f(n) for n in sel}, D, loops_at, guards, nb)
                    n_eval += 1
        # ---- per-node queries
        for n in nodes:
            succ, pred = m.succ(n, t), m.pred(n, t)
            exp_nb = ms(succ)
            for name, fn in (('neighbors', lambda: g.neighbors(n, t)), ('neighbors_iter', lambda: list(g.neighbors_iter(n, t))),
                             ('dn.neighbors', lambda: dn.neighbors(g, n, t))):
                got = list(get(fn, name, t))
                if ms(got) != exp_nb:
                    raise V('neighbors', name, t, got, succ, {'node': repr(n)})
            if D:
                for name, fn, exp in (('successors', lambda: g.successors(n, t), succ),
                                      ('successors_iter', lambda: list(g.successors_iter(n, t)), succ),
                                      ('predecessors', lambda: g.predecessors(n, t), pred),
                                      ('predecessors_iter', lambda: list(g.predecessors_iter(n, t)), pred)):
                    got = list(get(fn, name, t))
                    if ms(got) != ms(exp):
                        raise V('neighbors', name, t, got, exp, {'node': repr(n)})
            alln = (pred + succ) if D else succ
            got = list(get(lambda: list(dn.all_neighbors(g, n, t=t)), 'dn.all_neighbors', t))
            if ms(got) != ms(alln):
                raise V('neighbors', 'dn.all_neighbors', t, got, alln, {'node': repr(n)})
            expnn = [x for x in nodes if x not in set(alln) | {n}]
            got = list(get(lambda: list(dn.non_neighbors(g, n, t=t)), 'dn.non_neighbors', t))
            if ms(got) != ms(expnn):
                raise V('neighbors', 'dn.non_neighbors', t, got, expnn, {'node': repr(n)})
            # single-node degree forms
            if not (not D and n in loops_at and 'D07' in guards):
                deg = len(succ) + (len(pred) if D else 0) + (1 if (not D and n in loops_at) else 0)
                forms = [('degree(n)', lambda: g.degree(n, t=t), deg), ('dn.degree(n)', lambda: dn.degree(g, n, t), deg)]
                if D:
                    forms += [('in_degree(n)', lambda: g.in_degree(n, t=t), len(pred)),
                              ('out_degree(n)', lambda: g.out_degree(n, t=t), len(succ))]
                for name, fn, e in forms:
                    got = get(fn, name, t)
                    if got != e:
                        raise V('degree', name, t, got, e, {'node': repr(n)})
            elif not D and n in loops_at:
                world.guard_hits['D07'] += 1
            hn = get(lambda: g.has_node(n, t), 'has_node', t)
            exp_h = (n in m.nodes) if t is None else bool(alln)
            if bool(hn) != exp_h:
                raise V('nodes', 'has_node', t, hn, exp_h, {'node': repr(n)})
            n_eval += 6
        for uk in unks:
            hn = get(lambda: g.has_node(uk, t), 'has_node', t)
            if hn:
                raise V('nodes', 'has_node(unknown)', t, hn, False, {'node': repr(uk)})
        # ---- node set
        expn = m.nodes_at(t)
        for name, fn in (('nodes', lambda: g.nodes(t=t)), ('dn.nodes', lambda: dn.nodes(g, t)),
                         ('nodes_iter', lambda: list(g.nodes_iter(t=t)))):
            got = list(get(fn, name, t))
            if ms(got) != ms(expn):
                raise V('nodes', name, t, got, expn)
        got = get(lambda: g.nodes(t=t, data=True), 'nodes(data=True)', t)
        from .obs import canon
        gd = {n: canon(a) for n, a in got}
        ed = {n: canon(m.nodes[n]) for n in expn}
        if len(got) != len(gd) or gd != ed:
            raise V('nodes', 'nodes(data=True)', t, sorted(map(repr, gd.items())), sorted(map(repr, ed.items())))
        cnt = [('number_of_nodes', lambda: g.number_of_nodes(t)), ('dn.number_of_nodes', lambda: dn.number_of_nodes(g, t))]
        if not D:
            cnt.append(('order', lambda: g.order(t)))
        for name, fn in cnt:
            got = get(fn, name, t)
            if got != len(expn):
                raise V('nodes', name, t, got, len(expn))
        n_eval += 6
        # ---- edge counts, density, histogram
        if not D and loopy and 'D07' in guards:
            world.guard_hits['D07'] += 1
        else:
            for name, fn in (('size', lambda: g.size(t)), ('number_of_interactions', lambda: g.number_of_interactions(t=t)),
                             ('dn.number_of_interactions', lambda: dn.number_of_interactions(g, t=t))):
                got = get(fn, name, t)
                if got != len(E):
                    raise V('counts', name, t, got, len(E))
            degs = Counter()
            for n in nodes:
                dd = len(m.succ(n, t)) + (len(m.pred(n, t)) if D else 0) + (1 if (not D and n in loops_at) else 0)
                degs[dd] += 1
            if nodes:
                exph = [degs.get(i, 0) for i in range(max(degs) + 1)]
                got = get(lambda: dn.degree_histogram(g, t), 'dn.degree_histogram', t)
                if list(got) != exph:
                    raise V('counts', 'dn.degree_histogram', t, got, exph)
            if t is None or 'D08' not in guards:
                nn, mm = len(expn), len(E)
                expd = Fraction(0) if (mm == 0 or nn <= 1) else Fraction(mm, nn * (nn - 1)) * (1 if D else 2)
                got = get(lambda: dn.density(g, t), 'dn.density', t)
                if abs(Fraction(got) - expd) > Fraction(1, 10 ** 9):
                    raise V('counts', 'dn.density', t, got, str(expd))
            else:
                world.guard_hits['D08'] += 1
            n_eval += 5
        # pair form of number_of_interactions (known and unknown pairs, both orders)
        probe = nodes + [unk]
        for a in probe[:5]:
            for b in probe[:5]:
                e = (1 if m.ever(a, b) else 0) if t is None else (1 if m.present(a, b, t) else 0)
                for name, fn in (('number_of_interactions(u,v)', lambda: g.number_of_interactions(a, b, t)),
                                 ('dn.number_of_interactions(u,v)', lambda: dn.number_of_interactions(g, a, b, t))):
                    got = get(fn, name, t)
                    if got != e:
                        raise V('counts', name, t, got, e, {'pair': repr((a, b))})
        n_eval += 1
        # ---- non_interactions (DynGraph; D09 open on DynDiGraph)
        if not D:
            expni = ms(und(a, b) for i, a in enumerate(nodes) for b in nodes[i + 1:] if und(a, b) not in
                       {und(x, y) for x, y in E})
            got = list(get(lambda: list(dn.non_interactions(g, t)), 'dn.non_interactions', t))
            if ms(und(a, b) for a, b in got) != expni:
                raise V('interactions', 'dn.non_interactions', t, got, sorted(map(sorted, expni), key=repr))
            n_eval += 1
        elif 'D09' in guards:
            world.guard_hits['D09'] += 1
        else:
            # networkx convention on a directed static graph: ordered pairs u != v without u->v
            expni = ms((a, b) for a in nodes for b in nodes if a != b and (a, b) not in Eset)
            got = list(get(lambda: list(dn.non_interactions(g, t)), 'dn.non_interactions', t))
            if ms(got) != expni:
                raise V('interactions', 'dn.non_interactions', t, got, sorted(expni, key=repr))
    # ---- t-independent entry points
    got = get(lambda: dn.is_empty(g), 'dn.is_empty', None)
    if bool(got) != (not m.keys()):
        raise V('counts', 'dn.is_empty', None, got, not m.keys())
    ids = m.instants()
    for n in nodes:
        exp = [t for t in ids if (m.succ(n, t) or m.pred(n, t))]
        got = get(lambda: g.get_node_snapshots(n), 'get_node_snapshots', None)
        if not isinstance(got, list) or list(got) != exp:
            if not ids and got in ([], None):
                continue
            raise V('nodes', 'get_node_snapshots', None, got, exp, {'node': repr(n)})
    for uk in unks:
        got = get(lambda: g.get_node_snapshots(uk), 'get_node_snapshots', None)
        if got not in ([], None):
            raise V('nodes', 'get_node_snapshots(unknown)', None, got, [], {'node': repr(uk)})
    return n_eval + 2


def check_degree_dict(world, name, t, got, exp, D, loops_at, guards, nb):
    if set(got) != set(exp):
        raise V('degree', name, t, got, exp, {'nbunch': repr(nb)})
    for n, e in exp.items():
        if not D and n in loops_at:
            if 'D07' in guards:
                world.guard_hits['D07'] += 1
                continue
            e += 1
        if got[n] != e:
            raise V('degree', name, t, got, exp, {'nbunch': repr(nb), 'node': repr(n)})
