#!/venv/bin/python
"""Regenerates MANIFEST.json from the focus table (single source of truth)."""
import json, os, sys
ROOT = os.path.dirname(os.path.abspath(__file__))
sys.path.insert(0, ROOT)
os.environ.setdefault('PYTHONPATH', '/repo')
sys.path.insert(0, '/repo')
from dst import manifest_data as md

checks = []
for pid in sorted(md.CLAIMS):
    c = md.CLAIMS[pid]
    checks.append({
        'property_id': pid,
        'quick_cmd': './check %s --tier quick' % pid,
        'thorough_cmd': './check %s --tier thorough' % pid,
        'evidence_file': 'evidence/%s.json' % pid,
        'replay_cmd_template': './check %s --replay {path}' % pid,
        'engine': 'dst',
        'level_claimed': {'category': c['level'], 'text': c['text'], 'design_ref': c['ref']},
        'level_note': c['note'],
        'technique': c['technique'],
    })
man = {
    'version': 1,
    'setup_cmd': './setup.sh',
    'hooks': {
        'guard': 'GIULIOROSSETTI_DYNETX_VERIF',
        'enable': 'no in-repo hooks exist: every seam is rebound from outside (DESIGN.md 2.2); the checks set '
                  'GIULIOROSSETTI_DYNETX_VERIF=1 in their own environment only for uniformity',
        'baseline_off_cmd': 'cd /repo && /venv/bin/python -m pytest -ra -q -p no:cacheprovider --timeout=900 '
                            '--continue-on-collection-errors dynetx/test',
        'source_commits': [],
        'add_only': True,
    },
    'engines': [{'name': 'dst', 'path': 'dst/', 'serves_properties': sorted(md.CLAIMS),
                 'kind_free_text': 'single-process deterministic simulation: one seeded PRNG decides histories, '
                                   'client interleavings, rejected calls, bulk/iterator failures, simulated-disk '
                                   'faults and restarts; a trivial set-based reference model is advanced in '
                                   'lock-step; ddmin-minimised replay files'}],
    'checks': checks,
    'notes': md.NOTES,
    'not_applicable': [{'property_id': k, 'reason': v} for k, v in sorted(md.NOT_APPLICABLE.items())],
}
json.dump(man, open(os.path.join(ROOT, 'MANIFEST.json'), 'w'), indent=1)
print('MANIFEST.json: %d checks, %d not applicable' % (len(checks), len(man['not_applicable'])))
