"""Every run starts from the library state of a fresh interpreter.

dynetx (unchanged) keeps no mutable module-level state apart from the opener table of its
`open_file` decorator, but a changed library may (a memo, a shared scratch buffer, a mutable
default argument, an lru_cache).  Such state survives from one simulated run to the next inside a
worker process, and then the outcome of a run is no longer a function of its seed: the failure
cannot be replayed from its file.  So the first run in a process records every mutable container
reachable from the dynetx modules (module globals, function / method default arguments, class
attributes) with a deep copy of its value, and every later run restores them in place and clears
functools caches.  What a leak between two CALLS does is still seen - inside one run.
"""
import copy
import sys
import types

_MUT = (dict, list, set, bytearray)
_saved = None          # list of (object, deep copy of its initial value)
_caches = None         # objects with cache_clear()


def _walk():
    seen = set()
    objs, caches = [], []

    def consider(val):
        if isinstance(val, _MUT) and id(val) not in seen:
            seen.add(id(val))
            objs.append(val)

    def function(fn):
        if hasattr(fn, 'cache_clear') and id(fn) not in seen:
            seen.add(id(fn))
            caches.append(fn)
        fn = getattr(fn, '__wrapped__', fn)
        for d in (getattr(fn, '__defaults__', None) or ()):
            consider(d)
        for d in (getattr(fn, '__kwdefaults__', None) or {}).values():
            consider(d)

    for name in sorted(sys.modules):
        if not (name == 'dynetx' or name.startswith('dynetx.')):
            continue
        mod = sys.modules[name]
        if mod is None:
            continue
        for attr, val in list(vars(mod).items()):
            if attr.startswith('__'):
                continue
            if isinstance(val, types.ModuleType):
                continue
            if isinstance(val, type):
                if getattr(val, '__module__', '').startswith('dynetx'):
                    for a2, v2 in list(vars(val).items()):
                        if a2.startswith('__') and a2 != '__init__':
                            continue
                        if isinstance(v2, (staticmethod, classmethod)):
                            v2 = v2.__func__
                        if callable(v2):
                            function(v2)
                        else:
                            consider(v2)
                continue
            if callable(val):
                if getattr(val, '__module__', '') and str(getattr(val, '__module__', '')).startswith('dynetx'):
                    function(val)
                continue
            consider(val)
    return objs, caches


def reset():
    """restore the recorded initial state (first call: record it)"""
    global _saved, _caches
    if 'dynetx' not in sys.modules:
        return
    if _saved is None:
        objs, _caches = _walk()
        _saved = []
        for o in objs:
            try:
                _saved.append((o, copy.deepcopy(o)))
            except Exception:
                pass
        return
    for o, init in _saved:
        try:
            if o == init and (not isinstance(o, dict) or list(o) == list(init)):
                continue
            fresh = copy.deepcopy(init)
            if isinstance(o, (dict, set)):
                o.clear()
                o.update(fresh)
            else:
                o[:] = fresh
        except Exception:
            pass
    for c in _caches:
        try:
            c.cache_clear()
        except Exception:
            pass
