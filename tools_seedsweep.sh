#!/bin/bash
# For every seeded change: how many of the given PRNG values let the owning quick check report it?
# usage: tools_seedsweep.sh "1 2 3" [id ...]     (scratch worktree under /tmp, removed afterwards)
cd /verif
seeds=${1:-"1 2 3"}; shift
ids=${@:-$(ls seeded | grep -v INDEX)}
for m in $ids; do
  p=${m%%-*}
  case $m in C03-m6|C15-m16) p=C01;; C17-m15) p=C05;; C20-m16) p=C06;; esac
  wt=/tmp/sweep-$m; git -C /repo worktree add -q --detach $wt HEAD && git -C $wt apply /verif/seeded/$m/patch.diff || { echo "$m apply-failed"; continue; }
  hits=""; for s in $seeds; do hits="$hits$(VERIF_REPO=$wt timeout 600 ./check $p --seed $s --no-min 2>&1 | grep -c '^VIOLATION' | sed 's/^[1-9][0-9]*$/1/')"; done
  git -C /repo worktree remove --force $wt; rm -rf $wt
  echo "$m $p $hits"
done
