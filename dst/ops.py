"""Execution of concrete operations against a replica (real graph + model).

An operation is a JSON-able dict.  Execution performs the call on the real graph, asks the
model what had to happen, advances the model, and returns an outcome record.  Expectations
are recomputed from the model at execution time, so any sub-list of an operation list is
itself a valid program (this is what makes ddmin sound).
"""
import copy

import dynetx as dn
import networkx as nx

from . import obs
from .core import (Abort, Precondition, Replica, SimSourceError, Violation, call, exc_class)
from .model import ModelGraph


def new_graph(directed, removal):
    cls = dn.DynDiGraph if directed else dn.DynGraph
    return cls() if removal else cls(edge_removal=False)


# ------------------------------------------------------------------ helpers
def N(x):
    """node ids travel through JSON replay files: a list stands for a tuple id"""
    return tuple(N(y) for y in x) if isinstance(x, list) else x


def edges_of(kind, items):
    if kind == 'from':
        return [(N(x[0]), N(x[1])) for x in items]
    ns = [N(n) for n in items]
    if kind == 'path':
        return list(zip(ns[:-1], ns[1:]))
    if kind == 'star':
        return [(ns[0], n) for n in ns[1:]]
    if kind == 'cycle':
        return list(zip(ns, ns[1:] + [ns[0]]))
    raise ValueError(kind)


def raising_gen(items, after):
    for i, x in enumerate(items):
        if after is not None and i == after:
            raise SimSourceError("source failed after %d items" % after)
        yield x
    if after is not None and after >= len(items):
        raise SimSourceError("source failed after %d items" % after)


def classify(st, r):
    return 'ok' if st == 'ok' else exc_class(r)


def mismatch(world, what, detail):
    """outcome class of a mutation differs from what the model demands"""
    if world.focus == 'C01':
        raise Violation('C01.outcome', what, detail)
    if world.focus in ('C03', 'C05'):
        world.diverged = True              # C03 / C05 keep judging their model-free clauses (see engine)
        return
    raise Precondition('C01.outcome %s %r' % (what, detail))


# ------------------------------------------------------------------ add_interaction
def do_add(world, rep, op):
    g, m = rep.g, rep.m
    u, v, t, e, sp = N(op['u']), N(op['v']), op['t'], op.get('e'), op.get('sp', 'pos')
    if sp == 'pos':
        args, kw = ((u, v, t) if e is None else (u, v, t, e)), {}
    elif sp == 'kw':
        args, kw = (u, v), ({'t': t} if e is None else {'t': t, 'e': e})
    elif sp == 'kw_all':
        args, kw = (), {'u': u, 'v': v, 't': t, 'e': e}
    elif sp == 'no_t':
        args, kw = (u, v), ({} if e is None else {'e': e})
        t = None
    else:
        raise ValueError(sp)
    if m.frozen and world.focus == 'C19':
        lo_f, hi_f = __import__('dst.oracles', fromlist=['x']).window(m, [t, e])
        pre_f = obs.full(g, lo_f, hi_f)
    st, r = call(g.add_interaction, *args, **kw)
    out = classify(st, r)
    if m.frozen and out != 'ok':
        # a frozen graph may reject its own mutators (it must, once finding D23 is repaired):
        # then nothing may have changed
        if world.focus == 'C19':
            d = obs.diff(pre_f, obs.full(g, lo_f, hi_f))
            if d:
                raise Violation('C19.frozen', 'state-changed:' + ','.join(d), {'op': op})
        world.count('fault.F-FROZEN.add_interaction')
        return {'out': out, 'fault': True, 'cls': 'frozen-reject', 'keys': [(u, v)]}
    if t is None:
        exp = 'NetworkXError'
    elif m.removal:
        exp = 'ValueError' if m.rejects(u, v, t) else 'ok'
    else:
        exp = out if out in ('ok', 'ValueError') else 'ok'   # acceptance observed (A.1)
    if out != exp:
        mismatch(world, 'add',{'op': op, 'expected': exp, 'got': out, 'msg': str(r) if st != 'ok' else None})
    if out == 'ok':
        if m.frozen:
            if 'D23' not in world.open_guards and world.focus == 'C19':
                raise Violation('C19.frozen', 'add_interaction-did-not-raise', {'op': op})
            world.guard_hits['D23'] += 1
        if m.removal:
            cls = span_class(m, u, v, t, e)
            m.apply_add(u, v, t, e)
        else:
            cls = 'acc'
            m.apply_add_acc(u, v, t)
        world.count('add.' + cls)
        return {'out': 'ok', 'fault': False, 'cls': cls, 'keys': [(u, v)]}
    world.count('fault.F-NOT' if t is None else 'fault.F-ORD')
    return {'out': out, 'fault': True, 'cls': 'reject', 'keys': [(u, v)]}


def span_class(m, u, v, t, e):
    """relative-position class of an accepted span (A.2), for coverage accounting"""
    k = m.key(u, v)
    runs = m.runs(k)
    a, b = t, (t if e is None else e - 1)
    kind = 'pt' if e is None else 'sp'
    if not runs:
        c = 'first'
    else:
        ls, le = runs[-1]
        if a > le + 1:
            c = 'gap'
        elif a == le + 1:
            c = 'adjacent' + ('-to-pt' if ls == le else '')
        elif b > le:
            c = 'overlap' + ('-samestart' if a == ls else '')
        else:
            c = 'contained' + ('-dup' if (a, b) == (ls, le) else '')
    o = ''
    if not m.directed and k in m.orient and m.orient[k] != (u, v) and u != v:
        o = '.swapped'
    return '%s.%s%s' % (c, kind, o)


# ------------------------------------------------------------------ bulk helpers
def do_bulk(world, rep, op):
    g, m = rep.g, rep.m
    kind, form, items = op['kind'], op.get('form', 'method'), op['items']
    t, e = op.get('t'), op.get('e')
    container, after = op.get('container', 'list'), op.get('raise_after')
    edges = edges_of(kind, items)
    if kind == 'from':
        if container == 'list':
            arg = list(edges)
        elif container == 'tuple3':
            arg = tuple((a, b, {}) for a, b in edges)
        elif container == 'gen':
            arg = raising_gen(list(edges), after)
        else:
            raise ValueError(container)
        if form == 'method':
            fn, args = g.add_interactions_from, (arg,)
        else:
            raise ValueError(form)
        kw = {}
        if op.get('t_kw', True):
            kw['t'] = t
        else:
            args = args + (t,)
        if e is not None:
            kw['e'] = e
    else:
        nodes = [N(n) for n in items] if container != 'gen' else iter([N(n) for n in items])
        if form == 'method':
            fn = getattr(g, 'add_' + kind)
            args, kw = (nodes,), {'t': t}
        else:
            fn = getattr(dn, 'add_' + kind)
            args, kw = (g, nodes, t), ({} if e is None else {'e': e})
    if not m.removal:
        op = dict(op, _probe=copy.deepcopy(g))
    if m.frozen and world.focus == 'C19':
        lo_f, hi_f = __import__('dst.oracles', fromlist=['x']).window(m, [t, e])
        pre_f = obs.full(g, lo_f, hi_f)
    st, r = call(fn, *args, **kw)
    out = classify(st, r)
    if m.frozen and out not in ('ok', 'ValueError', 'SimSourceError') and t is not None:
        # a frozen graph rejecting its bulk helpers (finding D23 repaired): nothing may change
        if world.focus == 'C19':
            d = obs.diff(pre_f, obs.full(g, lo_f, hi_f))
            if d:
                raise Violation('C19.frozen', 'state-changed:' + ','.join(d), {'op': {k: v for k, v in op.items() if k != '_probe'}})
        world.count('fault.F-FROZEN.bulk')
        return {'out': out, 'fault': True, 'cls': 'frozen-reject', 'keys': edges}
    # what had to happen: elements are applied in order up to the first rejected one.
    # removal mode: the model decides; accumulative mode: acceptance is *observed* (A.1) by
    # offering the same elements one by one to a scratch copy taken before the call.
    applied, exp, alt_none = [], 'ok', False
    if t is None:
        exp = 'NetworkXError'
    else:
        for i, (u, v) in enumerate(edges):
            if after is not None and i == after:
                exp, alt_none = 'SimSourceError', True
                break
            if m.removal:
                if m.rejects(u, v, t):
                    exp = 'ValueError'
                    break
                m.apply_add(u, v, t, e)
            else:
                st1, r1 = call(op['_probe'].add_interaction, u, v, t, e)
                if st1 != 'ok':
                    exp = exc_class(r1)
                    break
                m.apply_add_acc(u, v, t)
            applied.append((u, v))
        else:
            if after is not None and after >= len(edges):
                exp, alt_none = 'SimSourceError', True
    if out != exp:
        mismatch(world, 'bulk', {'op': {k: v for k, v in op.items() if k != '_probe'}, 'expected': exp,
                                 'got': out, 'msg': str(r) if st != 'ok' else None})
    world.count('bulk.%s.%s' % (kind, form))
    if exp == 'ok':
        return {'out': 'ok', 'fault': False, 'cls': 'bulk', 'keys': edges}
    if exp == 'ValueError':
        world.count('fault.F-BULK')
        world.count('fault.F-BULK.k=%d' % len(applied))
    elif exp == 'SimSourceError':
        world.count('fault.F-ITER')
    elif exp == 'NetworkXError':
        world.count('fault.F-NOT')
    else:
        raise Abort('bulk element raised %s' % exp)
    return {'out': out, 'fault': True, 'cls': 'bulk-fail', 'keys': edges, 'applied': len(applied),
            'alt_none': alt_none}


# ------------------------------------------------------------------ node / attribute operations
def do_node(world, rep, op):
    g, m = rep.g, rep.m
    kind = op['kind']
    attrs = copy.deepcopy(op.get('attrs') or {})
    if m.frozen:
        return {'out': 'skipped', 'fault': False, 'cls': 'node', 'keys': []}
    op = dict(op)
    if 'n' in op:
        op['n'] = N(op['n'])
    if 'ns' in op:
        op['ns'] = [N(n) for n in op['ns']]
    if rep.shared_attrs and attrs and kind in ('add_node', 'add_nodes_from') and \
            any(n in m.nodes for n in ([op['n']] if kind == 'add_node' else op['ns'])):
        # in-place update of an attribute dict that may be shared with another replica
        # (time_slice shares them; no property promises otherwise)
        return {'out': 'skipped', 'fault': False, 'cls': 'node', 'keys': []}
    op = dict(op)
    if 'n' in op:
        op['n'] = N(op['n'])
    if 'ns' in op:
        op['ns'] = [N(n) for n in op['ns']]
    if kind == 'add_node':
        st, r = call(g.add_node, op['n'], **attrs)
        if st == 'ok':
            m.add_node(op['n'], attrs)
    elif kind == 'add_nodes_from':
        st, r = call(g.add_nodes_from, list(op['ns']), **attrs)
        if st == 'ok':
            for n in op['ns']:
                m.add_node(n, attrs)
            if len(op['ns']) > 1 and any(isinstance(v, (list, dict)) for v in attrs.values()):
                rep.shared_attrs = True      # networkx shallow-copies attr per node: nested values shared
    elif kind == 'update_node_attr':
        if op['n'] not in m.nodes:
            return {'out': 'skipped', 'fault': False, 'cls': 'node', 'keys': []}
        st, r = call(g.update_node_attr, op['n'], **attrs)
        if st == 'ok':
            m.set_node_attrs(op['n'], attrs)
    elif kind == 'update_node_attr_from':
        ns = [n for n in op['ns'] if n in m.nodes]
        st, r = call(g.update_node_attr_from, ns, **attrs)
        if st == 'ok':
            for n in ns:
                m.set_node_attrs(n, attrs)
            if len(ns) > 1:
                rep.shared_attrs = True
    elif kind == 'set_node_attributes':
        if rep.shared_attrs:
            return {'out': 'skipped', 'fault': False, 'cls': 'node', 'keys': []}
        vals = {n: copy.deepcopy(attrs) for n in op['ns']}
        st, r = call(dn.set_node_attributes, g, vals)
        if st == 'ok':
            for n in op['ns']:
                if n in m.nodes:
                    m.nodes[n].update(copy.deepcopy(attrs))
    elif kind == 'graph_attr':
        st, r = call(g.graph.update, attrs)
        if st == 'ok':
            m.gattrs.update(copy.deepcopy(attrs))
    else:
        raise ValueError(kind)
    if st != 'ok':
        raise Abort('node op %s raised %s' % (kind, exc_class(r)))
    world.count('node.' + kind)
    return {'out': 'ok', 'fault': False, 'cls': 'node', 'keys': []}


def new_root(world, op):
    directed, removal = op['directed'], op.get('removal', True)
    rep = Replica(new_graph(directed, removal), ModelGraph(directed, removal), 'root')
    world.add_replica(rep, op)
    world.count('root.%s.%s' % ('D' if directed else 'U', 'removal' if removal else 'accumulative'))
    return {'out': 'ok', 'fault': False, 'cls': 'root', 'keys': []}


# ------------------------------------------------------------------ derivations (C06, C16)
def require_source_ok(world, rep):
    """derivation oracles compare the derived graph with the source's model: the source must
    agree with its model first (otherwise the defect belongs to C01, not to the derivation)"""
    from . import oracles
    lo, hi = oracles.window(rep.m)
    bad = oracles.presence_mismatch(rep, lo, hi)
    if bad:
        raise Precondition('source replica disagrees with its model: %r' % (bad,))


def attrs_mismatch(g, m):
    got = {n: obs.canon(a) for n, a in g.nodes(data=True)}
    exp = {n: obs.canon(a) for n, a in m.nodes.items()}
    if got != exp:
        return {'impl': sorted(map(repr, got.items())), 'model': sorted(map(repr, exp.items()))}
    if obs.canon(dict(g.graph)) != obs.canon(m.gattrs):
        return {'impl_graph': repr(dict(g.graph)), 'model_graph': repr(m.gattrs)}
    return None


def check_derived(world, tag, h, hm, cls_expected, op, nodes_exact=True):
    """presence of the derived graph == model for all pairs and instants; nodes and attrs"""
    from . import oracles
    from .core import Replica as R
    if type(h) is not cls_expected:
        raise Violation(tag + '.class', 'class', {'got': type(h).__name__, 'expected': cls_expected.__name__})
    tmp = R(h, hm, 'tmp')
    lo, hi = oracles.window(hm, [op.get('t_from'), op.get('t_to')])
    bad = oracles.presence_mismatch(tmp, lo, hi)
    if bad:
        raise Violation(tag + '.presence', bad[0], {'op': op, 'query': bad[1], 'got': bad[2]})
    world.evals += getattr(tmp, '_n', 1)
    if nodes_exact:
        am = attrs_mismatch(h, hm) if tag != 'C06' else None
        if tag == 'C06':
            got = {n: obs.canon(a) for n, a in h.nodes(data=True)}
            exp = {n: obs.canon(a) for n, a in hm.nodes.items()}
            if got != exp:
                am = {'impl': sorted(map(repr, got.items())), 'model': sorted(map(repr, exp.items()))}
        if am:
            raise Violation(tag + '.nodes', 'nodes-or-attrs', dict(am, op=op))


def do_slice(world, rep, op):
    g, m = rep.g, rep.m
    require_source_ok(world, rep)
    a, b = op['t_from'], op.get('t_to')
    lo, hi = __import__('dst.oracles', fromlist=['x']).window(m, [a, b])
    pre = obs.full(g, lo, hi)
    if op.get('form') == 'func':
        st, h = call(dn.time_slice, g, a, b) if b is not None or op.get('pass_none') else call(dn.time_slice, g, a)
    else:
        st, h = call(g.time_slice, a, b) if b is not None or op.get('pass_none') else call(g.time_slice, a)
    world.last_derived = h if st == 'ok' else None
    post = obs.full(g, lo, hi)
    d = obs.diff(pre, post)
    if d:
        raise Violation('C06.source-unchanged', ','.join(d), {'op': op, 'before': {k: pre[k] for k in d},
                                                              'after': {k: post[k] for k in d}})
    world.evals += 1
    if b is not None and b < a:
        if st == 'ok' or not isinstance(h, ValueError):
            raise Violation('C06.window', 'inverted-window-not-rejected', {'op': op, 'got': classify(st, h)})
        world.count('slice.inverted')
        return {'out': 'ValueError', 'fault': True, 'cls': 'slice-inverted', 'keys': []}
    if st != 'ok':
        raise Violation('C06.raises', exc_class(h), {'op': op, 'msg': str(h)})
    bb = a if b is None else b
    hm = m.slice(a, bb)
    cls = dn.DynDiGraph if m.directed else dn.DynGraph
    check_derived(world, 'C06', h, hm, cls, op)
    new = Replica(h, hm, 'slice', op['g'])
    new.shared_attrs = rep.shared_attrs = True     # time_slice shares attribute dicts (not promised otherwise)
    world.add_replica(new, op)
    world.count('slice.' + slice_class(m, a, bb))
    return {'out': 'ok', 'fault': False, 'cls': 'slice', 'keys': [], 'new': len(world.reps) - 1}


def slice_class(m, a, b):
    ids = m.instants()
    if not ids:
        return 'empty-source'
    hit = [t for t in ids if a <= t <= b]
    if not hit:
        return 'misses-everything'
    if a <= ids[0] and b >= ids[-1]:
        return 'covers-everything'
    cuts = 0
    for k in m.keys():
        for s, e in m.runs(k):
            if s < a <= e:
                cuts |= 1
            if s <= b < e:
                cuts |= 2
    return ['between-runs', 'cuts-head', 'cuts-tail', 'cuts-both'][cuts]


def do_slice2(world, rep, op):
    """slicing a slice equals slicing by the intersection of the windows"""
    g, m = rep.g, rep.m
    require_source_ok(world, rep)
    (a1, b1), (a2, b2) = op['w1'], op['w2']
    st, h1 = call(g.time_slice, a1, b1)
    if st != 'ok':
        raise Violation('C06.raises', exc_class(h1), {'op': op})
    st, h12 = call(h1.time_slice, a2, b2)
    if st != 'ok':
        raise Violation('C06.raises', exc_class(h12), {'op': op, 'stage': 'slice-of-slice'})
    a, b = max(a1, a2), min(b1, b2)
    lo, hi = min(a1, a2) - 2, max(b1, b2) + 2
    o12 = obs.full(h12, lo, hi)
    if a <= b:
        st, hd = call(g.time_slice, a, b)
        if st != 'ok':
            raise Violation('C06.raises', exc_class(hd), {'op': op, 'stage': 'intersection'})
        od = obs.full(hd, lo, hi)
        d = obs.diff(od, o12)
        d = [x for x in d if x != 'graph']
        if 'stream' in d and sorted(od['stream'], key=repr) == sorted(o12['stream'], key=repr) and \
                [e[2] for e in od['stream']] == [e[2] for e in o12['stream']]:
            d.remove('stream')      # same events, chronological in both; order inside an instant is free
        if d:
            raise Violation('C06.slice-of-slice', ','.join(d), {'op': op, 'direct': {k: od[k] for k in d},
                                                                'nested': {k: o12[k] for k in d}})
    else:
        if o12['presence'] or o12['nodes'] or o12['stream'] or o12['ids']:
            raise Violation('C06.slice-of-slice', 'disjoint-windows-not-empty', {'op': op, 'nested': o12})
    world.evals += 1
    world.count('slice2.' + ('overlap' if a <= b else 'disjoint'))
    return {'out': 'ok', 'fault': False, 'cls': 'slice2', 'keys': []}


def do_convert(world, rep, op):
    g, m = rep.g, rep.m
    require_source_ok(world, rep)
    from . import oracles
    lo, hi = oracles.window(m)
    pre = obs.full(g, lo, hi)
    if op['to'] == 'directed':
        if m.directed:
            return {'out': 'skipped', 'fault': False, 'cls': 'skip', 'keys': []}
        st, h = call(g.to_directed)
        hm = m.to_directed()
        cls = dn.DynDiGraph
        world.last_derived = h if st == 'ok' else None
    else:
        if not m.directed:
            return {'out': 'skipped', 'fault': False, 'cls': 'skip', 'keys': []}
        rec = bool(op.get('reciprocal'))
        st, h = call(g.to_undirected, reciprocal=True) if rec else (
            call(g.to_undirected) if op.get('default_arg') else call(g.to_undirected, reciprocal=False))
        hm = m.to_undirected(rec)
        cls = dn.DynGraph
    world.last_derived = h if st == 'ok' else None
    if st != 'ok':
        raise Violation('C16.raises', exc_class(h), {'op': op, 'msg': str(h)})
    post = obs.full(g, lo, hi)
    d = obs.diff(pre, post)
    if d:
        raise Violation('C16.source-unchanged', ','.join(d), {'op': op, 'before': {k: pre[k] for k in d},
                                                              'after': {k: post[k] for k in d}})
    world.evals += 1
    if op['to'] == 'directed' and 'D16' in world.open_guards:
        check_to_directed_guarded(world, h, hm, m, op)
        hm = world._hm_observed
    else:
        check_derived(world, 'C16', h, hm, cls, op)
    new = Replica(h, hm, 'to_' + op['to'], op['g'])
    new.shared_attrs = rep.shared_attrs      # deepcopy preserves sharing *inside* the copy
    world.add_replica(new, op)
    world.count('convert.%s%s' % (op['to'], '.reciprocal' if op.get('reciprocal') else ''))
    return {'out': 'ok', 'fault': False, 'cls': 'convert', 'keys': [], 'new': len(world.reps) - 1}


def check_to_directed_guarded(world, h, hm, m, op):
    """D16 (open, pinned by test_conversion): to_directed creates one orientation only.
    Asserted: class, nodes/attrs, every direction that exists carries exactly the pair's
    presence, and each undirected pair appears in at least one orientation."""
    if type(h) is not dn.DynDiGraph:
        raise Violation('C16.class', 'class', {'got': type(h).__name__})
    am = attrs_mismatch(h, hm)
    if am:
        raise Violation('C16.nodes', 'nodes-or-attrs', dict(am, op=op))
    from . import oracles
    lo, hi = oracles.window(m)
    hm2 = ModelGraph(True, True)
    hm2.nodes, hm2.gattrs = copy.deepcopy(hm.nodes), copy.deepcopy(hm.gattrs)
    ns = list(m.nodes)
    for k, s in m.pres.items():
        u, v = m.orient[k]
        have = [(a, b) for a, b in {(u, v), (v, u)} if h.has_interaction(a, b)]
        if not have:
            raise Violation('C16.presence', 'pair-missing-in-both-orientations', {'op': op, 'pair': [u, v]})
        if len(have) < (1 if u == v else 2):
            world.guard_hits['D16'] += 1
        for a, b in have:
            hm2.pres[(a, b)] = set(s)
            hm2.orient[(a, b)] = (a, b)
    tmp = Replica(h, hm2, 'tmp')
    bad = oracles.presence_mismatch(tmp, lo, hi)
    if bad:
        raise Violation('C16.presence', bad[0], {'op': op, 'query': bad[1], 'got': bad[2]})
    world.evals += getattr(tmp, '_n', 1)
    world._hm_observed = hm2


def do_mutate_attr(world, rep, op):
    """F-ALIAS: mutate attribute values (nested mutables included) of one replica through the
    public views; the model of that replica alone is advanced"""
    g, m = rep.g, rep.m
    if rep.shared_attrs:
        return {'out': 'skipped', 'fault': False, 'cls': 'skip', 'keys': []}
    kind = op['kind']
    if kind == 'node_nested':
        n = N(op['n'])
        if n not in m.nodes:
            return {'out': 'skipped', 'fault': False, 'cls': 'skip', 'keys': []}
        d = dict(g.nodes(data=True))[n]
        d.setdefault('tags', []).append(op['val'])
        d.setdefault('meta', {}).setdefault('k', []).append(op['val'])
        md = m.nodes[n]
        md.setdefault('tags', []).append(op['val'])
        md.setdefault('meta', {}).setdefault('k', []).append(op['val'])
    elif kind == 'graph_nested':
        g.graph.setdefault('k', []).append(op['val'])
        g.graph.setdefault('d', {})['x'] = op['val']
        m.gattrs.setdefault('k', []).append(op['val'])
        m.gattrs.setdefault('d', {})['x'] = op['val']
    else:
        raise ValueError(kind)
    world.count('fault.F-ALIAS.' + kind)
    return {'out': 'ok', 'fault': False, 'cls': 'alias', 'keys': []}


def do_slice_acc(world, rep, op):
    """C03 only: a slice taken from an accumulative graph is a graph the library produced, so its
    timelines must be canonical and their union must be the presence the slice itself reports
    (what the slice must contain is not defined by any property and is not judged)"""
    from . import oracles
    g, m = rep.g, rep.m
    if m.removal:
        return {'out': 'skipped', 'fault': False, 'cls': 'skip', 'keys': []}
    a, b = op['t_from'], op['t_to']
    st, h = call(g.time_slice, a, b) if op.get('form') != 'func' else call(dn.time_slice, g, a, b)
    if st != 'ok':
        return {'out': exc_class(h), 'fault': True, 'cls': 'slice-acc-rejected', 'keys': []}
    world.evals += oracles.c03_intrinsic(h, min(a, b) - 2, max(a, b) + 2)
    world.count('slice.of-accumulative')
    return {'out': 'ok', 'fault': False, 'cls': 'slice-acc', 'keys': []}
