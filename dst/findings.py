"""Known findings (DESIGN.md section 6): the committed file /verif/known_findings.json is
never written at run time.  An open entry carries a scripted history (replay body) that is
re-executed by the check of its property; while it still fails with the recorded signature
the line `KNOWN-FINDING: property=<id> <what fails>` is printed."""
import json
import os

ROOT = os.path.dirname(os.path.dirname(os.path.abspath(__file__)))
PATH = os.path.join(ROOT, 'known_findings.json')


def load():
    if not os.path.exists(PATH):
        return []
    with open(PATH) as f:
        return json.load(f)


def open_findings(prop=None):
    return [e for e in load() if e['status_line'].startswith('open:') and (prop is None or e['property'] == prop)]


def fails_as_recorded(entry):
    """re-execute the scripted history; True if the recorded defect is still there"""
    from . import scripted
    return scripted.run_script(entry)


def report_known(prop):
    out = []
    for e in open_findings(prop):
        try:
            still = fails_as_recorded(e)
        except Exception as ex:  # a script that cannot run is a harness problem, not a pass
            print("HARNESS-ERROR known-finding script %s crashed: %r" % (e['id'], ex))
            raise
        if still:
            line = "KNOWN-FINDING: property=%s %s" % (prop, e['status_line'].split(' ', 2)[2])
            print(line)
            out.append(e['id'])
    return out


_OPEN = None


def open_ids():
    global _OPEN
    if _OPEN is None:
        off = set(filter(None, os.environ.get('DST_DISABLE_GUARD', '').split(',')))   # guard audit only
        _OPEN = frozenset(e['id'] for e in open_findings() if e['id'] not in off)
    return _OPEN
