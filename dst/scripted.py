"""Scripted histories of known findings: small literal programs against the real library,
each returning True while the recorded defect is still present."""
import dynetx as dn


def run_script(entry):
    fn = SCRIPTS[entry['script']]
    return bool(fn())


SCRIPTS = {}


def script(f):
    SCRIPTS[f.__name__] = f
    return f


@script
def d12a_unclosed_two_run():
    bad = False
    for cls in (dn.DynGraph, dn.DynDiGraph):
        g = cls()
        g.add_interaction(0, 1, 3)
        g.add_interaction(0, 1, 4)
        ev = [(op, t) for _, _, op, t in g.stream_interactions()]
        present = [t for t in range(2, 7) if g.has_interaction(0, 1, t)]
        if present == [3, 4] and ('-', 5) not in ev:
            bad = True
    return bad


@script
def d16_to_directed_one_orientation():
    g = dn.DynGraph()
    g.add_interaction(0, 3, 0)
    h = g.to_directed()
    return h.has_interaction(0, 3, 0) != h.has_interaction(3, 0, 0)
