"""Scripted histories of known findings: small literal programs against the real library,
each returning True while the recorded defect is still present."""
import dynetx as dn


def run_script(entry):
    fn = SCRIPTS[entry['script']]
    return bool(fn())


SCRIPTS = {}


def script(f):
    SCRIPTS[f.__name__] = f
    return f


@script
def d12a_unclosed_two_run():
    bad = False
    for cls in (dn.DynGraph, dn.DynDiGraph):
        g = cls()
        g.add_interaction(0, 1, 3)
        g.add_interaction(0, 1, 4)
        ev = [(op, t) for _, _, op, t in g.stream_interactions()]
        present = [t for t in range(2, 7) if g.has_interaction(0, 1, t)]
        if present == [3, 4] and ('-', 5) not in ev:
            bad = True
    return bad


@script
def d16_to_directed_one_orientation():
    g = dn.DynGraph()
    g.add_interaction(0, 3, 0)
    h = g.to_directed()
    return h.has_interaction(0, 3, 0) != h.has_interaction(3, 0, 0)


@script
def d06_directed_interactions_drop_backward():
    g = dn.DynDiGraph()
    g.add_interaction(0, 2, 3)
    g.add_interaction(1, 2, 1)
    g.add_interaction(2, 0, 3)
    got = {(u, v) for u, v, _ in g.interactions(t=3)}
    return got != {(0, 2), (2, 0)}


@script
def d07_selfloop_halving():
    g = dn.DynGraph()
    g.add_interaction(0, 0, 0)
    g.add_interaction(0, 1, 0)
    return g.degree(0, t=0) != 3 or g.size(t=0) != 2 or g.number_of_interactions(t=0) != 2


@script
def d08_density_at_t():
    g = dn.DynGraph()
    g.add_interaction(0, 1, 2)
    return dn.density(g, t=2) != 1.0


@script
def d09_non_interactions_directed():
    g = dn.DynDiGraph()
    g.add_interaction(1, 0, 0)
    g.add_interaction(1, 2, 5)
    got = {frozenset(p) for p in dn.non_interactions(g, 0)}
    # at t=0 only 1->0 is present: {0,2} and {1,2} do not interact
    return got != {frozenset((0, 2)), frozenset((1, 2))}


@script
def d20_unclosed_two_run_roundtrip():
    import io
    g = dn.DynGraph()
    g.add_interaction(0, 1, 0)
    g.add_interaction(0, 1, 1)
    b = io.BytesIO()
    dn.write_interactions(g, b)
    h = dn.read_interactions(io.BytesIO(b.getvalue()), nodetype=int, timestamptype=int)
    return g.has_interaction(0, 1, 1) and not h.has_interaction(0, 1, 1)


@script
def d23_add_interaction_on_frozen():
    g = dn.DynGraph()
    g.add_interaction(0, 1, 0)
    dn.freeze(g)
    try:
        g.add_interaction(0, 2, 1)
    except Exception:
        return False
    return g.has_interaction(0, 2, 1)
