#!/bin/sh
# Nothing to build: the framework is pure Python run by /venv/bin/python.  Verify the
# preconditions every check relies on (dynetx importable from /repo, seams patchable).
set -e
cd "$(dirname "$0")"
PYTHONPATH=/repo:. PYTHONDONTWRITEBYTECODE=1 /venv/bin/python - <<'PY'
import os, dynetx, networkx
assert os.path.realpath(dynetx.__file__).startswith('/repo/'), dynetx.__file__
print('setup ok: dynetx from', dynetx.__file__, 'networkx', networkx.__version__)
PY
