"""C17: temporal statistics vs exact rational recomputation from the model (A.9); inter-event
distributions vs the histogram of gaps of the actual stream."""
import dynetx as dn
from collections import Counter
from fractions import Fraction
from itertools import combinations

from .core import Violation, call, exc_class
from .ops import require_source_ok

EPS = Fraction(1, 10 ** 9)


def close(got, exp):
    try:
        return abs(Fraction(got) - exp) <= EPS
    except (TypeError, ValueError):
        return False


def do_probe_stats(world, rep, op):
    g, m = rep.g, rep.m
    if world.poke:
        from . import oracles as _o
        _o.poke_observers(rep.g, *_o.window(rep.m))
    require_source_ok(world, rep)
    tag = world.focus if world.focus == 'C17' else 'C17'
    if not m.removal:
        return {'out': 'skipped', 'fault': False, 'cls': 'skip', 'keys': []}
    ids = m.instants()
    if not ids:
        return {'out': 'skipped', 'fault': False, 'cls': 'skip', 'keys': []}
    n_eval = 0
    # ---- inter-event distributions (both classes): histogram of gaps of the actual stream
    st, stream = call(lambda: [tuple(e) for e in g.stream_interactions()])
    if st != 'ok':
        raise Violation(tag + '.stream', 'raises', exc_class(stream))

    def hist(events):
        ts = [e[3] for e in events]
        return dict(Counter(ts[i + 1] - ts[i] for i in range(len(ts) - 1)))

    def check_dist(name, fn, events):
        st, r = call(fn)
        if st != 'ok':
            raise Violation(tag + '.inter-event', name + ':raises', {'exc': exc_class(r), 'msg': str(r)[:200]})
        exp = hist(events)
        if dict(r) != exp:
            raise Violation(tag + '.inter-event', name, {'impl': repr(dict(r)), 'from_stream': repr(exp), 'op': op})
        if events:
            if sum(dict(r).values()) != len(events) - 1 or sum(k * v for k, v in dict(r).items()) != events[-1][3] - events[0][3]:
                raise Violation(tag + '.inter-event', name + ':mass', {'impl': repr(dict(r))})

    check_dist('global', lambda: g.inter_event_time_distribution(), stream)
    check_dist('dn.global', lambda: dn.inter_event_time_distribution(g), stream)
    nodes = list(m.nodes)
    for u in nodes[:4]:
        check_dist('node', lambda: g.inter_event_time_distribution(u), [e for e in stream if e[0] == u or e[1] == u])
        check_dist('dn.node', lambda: dn.inter_event_time_distribution(g, u), [e for e in stream if e[0] == u or e[1] == u])
        n_eval += 1
        if m.directed:
            check_dist('out-node', lambda: g.inter_out_event_time_distribution(u), [e for e in stream if e[0] == u])
            check_dist('in-node', lambda: g.inter_in_event_time_distribution(u), [e for e in stream if e[1] == u])
    if m.directed:
        check_dist('out-global', lambda: g.inter_out_event_time_distribution(), stream)
        check_dist('in-global', lambda: g.inter_in_event_time_distribution(), stream)
    n_eval += 1
    world.count('probe.stats.inter-event')
    # ---- stream-graph measures: DynGraph without self-loops
    if m.directed or any(len(k) == 1 for k in m.pres):
        world.evals += n_eval
        return {'out': 'ok', 'fault': False, 'cls': 'probe-stats', 'keys': []}
    T = ids
    Tn = {x: {t for t in T if m.succ(x, t)} for x in nodes}
    Tp = {k: set(s) for k, s in m.pres.items()}

    def chk(name, fn, exp, unit=True):
        nonlocal n_eval
        st, r = call(fn)
        if st != 'ok':
            raise Violation(tag + '.measure', name + ':raises', {'exc': exc_class(r), 'msg': str(r)[:200], 'op': op})
        if not close(r, exp):
            raise Violation(tag + '.measure', name, {'impl': repr(r), 'model': str(exp), 'op': op})
        if unit and not (-EPS <= Fraction(r) <= 1 + EPS):
            raise Violation(tag + '.measure', name + ':range', {'impl': repr(r)})
        n_eval += 1

    chk('coverage', g.coverage, Fraction(sum(len(m.nodes_at(t)) for t in T), len(T) * len(nodes)))
    chk('avg_number_of_nodes', g.avg_number_of_nodes, m.avg_nodes(), unit=False)
    for u in nodes:
        chk('node_contribution', lambda: g.node_contribution(u), Fraction(len(Tn[u]), len(T)))
        st, r = call(g.node_presence, u)
        if st != 'ok' or set(r) != Tn[u]:
            raise Violation(tag + '.measure', 'node_presence', {'impl': repr(r), 'model': sorted(Tn[u])})
        num = sum(len(Tp.get(frozenset((u, v)), ())) for v in nodes if v != u)
        den = sum(len(Tn[u] & Tn[v]) for v in nodes)
        chk('node_density', lambda: g.node_density(u), Fraction(num, den) if den else Fraction(0))
    for k, s in Tp.items():
        u, v = tuple(k)
        for a, b in ((u, v), (v, u)):
            chk('edge_contribution', lambda: g.edge_contribution(a, b), Fraction(len(s), len(T)))
    num_u = den_u = num_d = 0
    for u, v in combinations(nodes, 2):
        inter, union = Tn[u] & Tn[v], Tn[u] | Tn[v]
        num_u += len(inter)
        den_u += len(union)
        num_d += len(Tp.get(frozenset((u, v)), ()))
        if union:
            chk('node_pair_uniformity', lambda: g.node_pair_uniformity(u, v), Fraction(len(inter), len(union)))
        chk('pair_density', lambda: g.pair_density(u, v),
            Fraction(len(Tp.get(frozenset((u, v)), ())), len(inter)) if inter else Fraction(0))
    if den_u:
        chk('uniformity', g.uniformity, Fraction(num_u, den_u))
    if num_u:
        chk('density', g.density, Fraction(num_d, num_u))
    lo, hi = T[0] - 1, T[-1] + 1
    for t in range(lo, hi + 1):
        nn, mm = len(m.nodes_at(t)), len(m.edges_at(t))
        exp = Fraction(0) if nn <= 1 else Fraction(2 * mm, nn * (nn - 1))
        chk('snapshot_density', lambda: g.snapshot_density(t), exp)
    world.evals += n_eval
    world.count('probe.stats.measures')
    if any(len(m.runs(k)) > 1 for k in m.pres):
        world.count('probe.stats.measures.multi-run-timeline')
    return {'out': 'ok', 'fault': False, 'cls': 'probe-stats', 'keys': []}
