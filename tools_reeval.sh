#!/bin/bash
cd /verif
for d in seeded/*/; do m=$(basename $d); p=${m%%-*}; extra=""
 case $m in C03-m6|C15-m16) extra="C01";; C03-m24) extra="C16";; C17-m15) extra="C05";; C20-m16) extra="C06";; esac
 ./tools_seeded.py /verif/seeded/$m $m $p $extra 2>&1 | grep -E "^(C[0-9]+ exit|NOT)" | cut -c1-120 | tr '\n' ' ' | sed "s/^/$m /"; echo; done
