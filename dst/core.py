"""Shared plumbing: exceptions, the simulated world, call wrapper, event log."""
import hashlib
import json
import sys
from collections import Counter

import networkx as nx


class Violation(Exception):
    """an armed oracle of the focused property failed"""

    def __init__(self, oracle, sub, detail=None):
        super().__init__("%s/%s %s" % (oracle, sub, detail))
        self.oracle, self.sub, self.detail = oracle, sub, detail


class Precondition(Exception):
    """a property the focused one builds on does not hold in this run: the run is discarded
    (and counted), not reported under the focused property"""


class Abort(Exception):
    """unexpected exception in an operation the focused property does not speak about"""


class Hang(Exception):
    pass


class SimSourceError(Exception):
    """raised by simulator-owned iterables while the library consumes them (F-ITER)"""


def call(fn, *a, **k):
    """every call into dynetx goes through here: exceptions are data"""
    try:
        return 'ok', fn(*a, **k)
    except Hang:
        raise
    except Exception as ex:  # noqa
        return 'exc', ex


def exc_class(ex):
    if isinstance(ex, nx.NetworkXNotImplemented):
        return 'NetworkXNotImplemented'
    if isinstance(ex, nx.NetworkXError):
        return 'NetworkXError'
    return type(ex).__name__


class Replica:
    def __init__(self, g, m, prov, src=None):
        self.g, self.m, self.prov, self.src = g, m, prov, src
        self.alive = True
        self.shared_attrs = False   # update_node_attr_from used: attr dicts may be shared

    @property
    def derived(self):
        return self.prov != 'root'


class World:
    def __init__(self, focus, profile=None):
        self.focus = focus
        self.profile = profile or {}
        self.reps = []
        self.idmap = {}
        self.next_rid = 0
        self.stats = Counter()
        self.log = []
        self.trans = set()       # distinct (model digest, op class) transitions
        self.fs = None
        self.quiet = False       # shadow / schedule-B executions: no oracle, no stats
        self.accepted_ops = []   # for shadow replay
        self.guard_hits = Counter()
        self.history = []        # every executed op (roots included), for second-schedule runs
        self.armed = set()
        self.big = False
        self.pending = []
        self.step = 0
        self.check_every = 1
        self.poke = False
        self.big_done = False
        self.comb_done = False
        from . import findings
        self.open_guards = findings.open_ids()
        self.evals = 0

    # stable replica ids: creating operations carry 'rid'; later operations address replicas by
    # rid, so dropping or failing a creating operation never re-targets the operations after it
    def add_replica(self, rep, op):
        self.reps.append(rep)
        rid = op.get('rid')
        if rid is None:
            rid = len(self.reps) - 1
        self.idmap[rid] = len(self.reps) - 1
        return len(self.reps) - 1

    def rep_by_id(self, rid):
        i = self.idmap.get(rid)
        return None if i is None else self.reps[i]

    def rid_of(self, index):
        for r, i in self.idmap.items():
            if i == index:
                return r
        return None

    def count(self, name, n=1):
        if not self.quiet:
            self.stats[name] += n

    def rec(self, entry):
        if not self.quiet:
            self.log.append(entry)

    def digest(self):
        return hashlib.sha256(json.dumps(self.log, sort_keys=True, default=repr).encode()).hexdigest()


def jnode(n):
    return n


def eprint(*a):
    print(*a, file=sys.stderr)
